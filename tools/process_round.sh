#!/bin/bash
# tools/process_round.sh <prefix> <property>...   confirm (in the sub-agent's worktree) and try
# (in the scratch area, /repo untouched) the two changes of each property; log to /tmp/<prefix>-*.log
pre="$1"; shift
for p in "$@"; do
  case $p in C16) c="-p trippy-core -p trippy-tui";; C17|C18) c="-p trippy-tui";; *) c="-p trippy-core -p trippy-packet";; esac
  for m in A B; do
    echo "=== $p $m"
    CRATES="$c" /verif/tools/confirm_mutant.sh /tmp/$pre-$p $m 2>&1 | tail -1
    timeout 2400 /verif/tools/try_mutant_scratch.sh /tmp/$pre-$p/_mutant/$m/patch.diff $p quick 2>&1 | tail -4 | cut -c1-330
  done
done
