#!/bin/bash
# tools/process_round.sh <prefix> <property>...   confirm (in the sub-agents' worktrees, six properties at a
# time, the two changes of a property one after the other) and try (in the scratch area, one after the other; /repo untouched) the two changes
# of each property.  Output: one "=== <prop> <A|B>" block per change.
pre="$1"; shift
crates_of() { case $1 in C16) echo "-p trippy-core -p trippy-tui";; C17|C18) echo "-p trippy-tui";; *) echo "-p trippy-core -p trippy-packet";; esac; }
export -f crates_of
printf "%s\n" "$@" | xargs -P 6 -I{} bash -c 'p={}; for m in A B; do CRATES="$(crates_of $p)" /verif/tools/confirm_mutant.sh /tmp/'"$pre"'-$p $m > /tmp/'"$pre"'-confirm-$p-$m.log 2>&1; done'
for p in "$@"; do
  for m in A B; do
    echo "=== $p $m"
    tail -1 /tmp/$pre-confirm-$p-$m.log
    timeout 2400 /verif/tools/try_mutant_scratch.sh /tmp/$pre-$p/_mutant/$m/patch.diff $p quick 2>&1 | tail -4 | cut -c1-330
  done
done
