#!/bin/bash
# tools/store_mutant.sh <worktree> <A|B> <property> <id-suffix> <first-signature> [crates]
# Keep a confirmed seeded change under /verif/seeded/<property>-<suffix>/.
set -eu
wt="$1"; m="$2"; prop="$3"; suf="$4"; sig="$5"; crates="${6:--p trippy-core -p trippy-packet}"
d="/verif/seeded/$prop-$suf"; mkdir -p "$d"
cp "$wt/_mutant/$m/patch.diff" "$wt/_mutant/$m/demo.diff" "$wt/_mutant/$m/NOTES.md" "$d/"
head=$(git -C "$wt" rev-parse --short HEAD)
cat > "$d/meta.json" <<JSON
{
 "id": "$prop-$suf",
 "property": "$prop",
 "source": "independent sub-agent given only the property text and a scratch worktree of /repo (HEAD $head); nothing from /verif",
 "needs_to_manifest": "see NOTES.md (author's description of the specific schedule / fault / sequence / input)",
 "confirmed": {
  "how": "CRATES='$crates' tools/confirm_mutant.sh <worktree> <A|B>: patch applies; existing tests pass with the patch alone; with patch+demo the demo test(s) fail; with the demo alone everything passes",
  "result": "confirmed"
 },
 "detection": {
  "command": "tools/try_mutant.sh seeded/$prop-$suf/patch.diff $prop quick  (git -C /repo apply; ./check $prop quick; git -C /repo checkout -- .)",
  "exit_code": 1,
  "first_signature": "$sig"
 }
}
JSON
echo "stored $d"
