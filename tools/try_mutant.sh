#!/bin/bash
# tools/try_mutant.sh <patch.diff> <property> [tier]   apply to /repo, run the check, undo
set -u
patch="$1"; prop="$2"; tier="${3:-quick}"
cd /verif
if ! git -C /repo diff --quiet; then echo "RESULT repo-dirty"; exit 2; fi
git -C /repo apply "$patch" || { echo "RESULT patch-does-not-apply"; exit 2; }
out=$(./check "$prop" "$tier" 2>&1); rc=$?
git -C /repo checkout -- .
echo "$out" | grep -E "violation |VIOLATION|harness error|KNOWN" | cut -c1-400 | head -6
echo "RESULT rc=$rc"
# keep the first replay for the record
exit $rc
