#!/bin/bash
# tools/try_mutant_scratch.sh <patch.diff> <property> [tier]
# As try_mutant.sh, but without touching /repo: the change is applied to a scratch worktree
# of /repo and the checks are built from a scratch copy of /verif/sim whose manifests point
# at that worktree.  Use it while other checks (which rebuild from /repo) are running.
# The scratch area lives under /tmp/verif-scratch and keeps its build output between calls;
# remove it with: git -C /repo worktree remove --force /tmp/verif-scratch/repo; rm -r /tmp/verif-scratch
set -u
patch="$(readlink -f "$1")"; prop="$2"; tier="${3:-quick}"
S=/tmp/verif-scratch
mkdir -p "$S"
head=$(git -C /repo rev-parse HEAD)
if [ ! -d "$S/repo" ]; then git -C /repo worktree add -q --detach "$S/repo" "$head" || exit 2; fi
git -C "$S/repo" checkout -q -- . && git -C "$S/repo" checkout -q --detach "$head" || exit 2
git -C "$S/repo" apply "$patch" || { echo "RESULT patch-does-not-apply"; exit 2; }
mkdir -p "$S/verif"
rsync -a --delete --exclude 'target/' --exclude 'replays/' --exclude 'evidence/' --exclude '.git/' --exclude 'seeded/' /verif/ "$S/verif/"
mkdir -p "$S/verif/evidence" "$S/verif/replays"
grep -rl '/repo/' "$S/verif/sim" --include=Cargo.toml | xargs sed -i "s|\"/repo/|\"$S/repo/|g"
cd "$S/verif" || exit 2
out=$(env -u VERIF_DIR ./check "$prop" "$tier" 2>&1); rc=$?
git -C "$S/repo" checkout -q -- .
echo "$out" | grep -E "violation |VIOLATION|harness error|error(\[|:)" | cut -c1-400 | head -6
echo "RESULT rc=$rc"
exit $rc
