#!/bin/bash
# tools/confirm_mutant.sh <worktree> <A|B>
# Confirms, inside the scratch worktree, that a proposed change (1) applies and compiles,
# (2) leaves the existing tests of trippy-core/trippy-packet passing, (3) makes its
# demonstration fail, and (4) that the demonstration passes without the change.
set -u
wt="$1"; m="$2"; d="$wt/_mutant/$m"
export CARGO_NET_OFFLINE=true CARGO_TARGET_DIR="$wt/target"
cd "$wt" || exit 2
git checkout -q -- . ; git clean -qfd crates >/dev/null 2>&1
run_tests() { cargo test ${CRATES:--p trippy-core -p trippy-packet} --offline 2>&1 | grep -E "^test result|^test .* FAILED|^error" ; }
git apply "$d/patch.diff" || { echo "RESULT patch-does-not-apply"; exit 1; }
out=$(run_tests); failed=$(echo "$out" | grep -c "FAILED\|^error")
echo "[patch only] failures=$failed"; [ "$failed" -ne 0 ] && { echo "$out" | head; echo "RESULT existing-tests-fail-with-patch"; git checkout -q -- .; exit 1; }
git apply "$d/demo.diff" || { echo "RESULT demo-does-not-apply"; git checkout -q -- .; exit 1; }
out=$(run_tests); failed_with=$(echo "$out" | grep "FAILED" | sort -u)
echo "[patch+demo] failing: $(echo "$failed_with" | tr '\n' ' ')"
git apply -R "$d/patch.diff" || { echo "RESULT cannot-revert-patch"; exit 1; }
out=$(run_tests); failed_without=$(echo "$out" | grep -c "FAILED\|^error")
echo "[demo only] failures=$failed_without"
git checkout -q -- . ; git clean -qfd crates >/dev/null 2>&1
if [ -n "$failed_with" ] && [ "$failed_without" -eq 0 ]; then echo "RESULT confirmed"; exit 0; else echo "RESULT not-confirmed"; exit 1; fi
