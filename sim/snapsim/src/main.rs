//! snapsim: round-atomic snapshots under a controlled thread scheduler (C20).
//!
//! The real tracer (`Tracer::verif_run_with` over the simulated network of `tracersim`)
//! runs as one shuttle thread; reader threads call the real `Tracer::snapshot` and
//! `Tracer::clear`.  The state lock is shuttle's scheduler-controlled `RwLock` (feature
//! `verif-shuttle` of trippy-core, supplied through a shadow manifest), so that a seeded
//! scheduler decides every interleaving of lock operations and a failing schedule replays
//! exactly.  The recorded history is checked for linearizability against the sequential
//! model "rounds applied since the last clear".

#![allow(dead_code)]

#[path = "../../tracersim/src/clock.rs"]
pub mod clock;
#[path = "../../tracersim/src/gen.rs"]
pub mod gen;
#[path = "../../tracersim/src/inject.rs"]
pub mod inject;
#[path = "../../tracersim/src/net.rs"]
pub mod net;
#[path = "../../tracersim/src/run.rs"]
pub mod run;
#[path = "../../tracersim/src/scenario.rs"]
pub mod scenario;
#[path = "../../tracersim/src/sniff.rs"]
pub mod sniff;
#[path = "../../tracersim/src/wire.rs"]
pub mod wire;
#[path = "../../tracersim/src/world.rs"]
pub mod world;

use scenario::Scenario;
use serde_json::{json, Value};
use simcore::evidence::{Counters, Evidence};
use simcore::findings::Findings;
use simcore::{Tape, EXIT_HARNESS, EXIT_OK, EXIT_VIOLATION};
use std::collections::{BTreeMap, HashSet};
use std::sync::atomic::{AtomicU64, Ordering};
use std::sync::{Arc, Mutex};
use trippy_core::verif::StateConfig;
use trippy_core::{CompletionReason, ProbeStatus, Round, State, TimeToLive, Tracer};


/// What the reader threads do.
#[derive(Debug, Clone, PartialEq, Eq)]
struct Workload {
    seed: u64,
    rounds: u32,
    /// Per reader: the operations it performs (true = clear, false = snapshot).
    readers: Vec<Vec<bool>>,
    /// The tracer dies of a fatal socket error at this (0-based) readiness poll of the run,
    /// so that the error hand-off races with the readers too.
    fail_at: Option<u32>,
}

impl Workload {
    fn from_seed(seed: u64) -> Self {
        let mut t = Tape::from_seed(simcore::mix64(seed ^ 0xc20));
        let rounds = 2 + t.draw(4);
        let nreaders = 1 + t.draw(3) as usize;
        let readers = (0..nreaders)
            .map(|_| {
                let n = 1 + t.draw(4) as usize;
                (0..n).map(|_| t.chance(350)).collect()
            })
            .collect();
        let fail_at = if t.chance(350) { Some(t.draw(rounds * 8 + 1)) } else { None };
        Self { seed, rounds, readers, fail_at }
    }

    fn to_json(&self) -> Value {
        json!({
            "seed": self.seed,
            "rounds": self.rounds,
            "readers": self.readers.iter().map(|r| r.iter().map(|c| if *c { "clear" } else { "snapshot" }).collect::<Vec<_>>()).collect::<Vec<_>>(),
            "fail_at": self.fail_at,
        })
    }

    fn from_json(v: &Value) -> Option<Self> {
        Some(Self {
            seed: v["seed"].as_u64()?,
            rounds: v["rounds"].as_u64()? as u32,
            readers: v["readers"]
                .as_array()?
                .iter()
                .map(|r| r.as_array().map(|a| a.iter().map(|x| x.as_str() == Some("clear")).collect()).unwrap_or_default())
                .collect(),
            fail_at: v["fail_at"].as_u64().map(|x| x as u32),
        })
    }
}

/// The network/tracer scenario of a workload: short rounds, lossy network.
fn scenario_of(w: &Workload) -> Scenario {
    let mut t = Tape::from_seed(simcore::mix64(w.seed ^ 0x5ce));
    let mut p = gen::Profile::base();
    p.max_path = 8;
    p.max_rounds = 4;
    p.stalls = false;
    p.route_change = false;
    p.sock_faults = false;
    let mut sc = gen::gen_scenario(&mut t, &p);
    let ms = 1_000_000u64;
    sc.tracer.rounds = w.rounds;
    sc.tracer.max_round_ns = (2 + u64::from(t.draw(6))) * ms;
    sc.tracer.min_round_ns = sc.tracer.min_round_ns.min(sc.tracer.max_round_ns);
    sc.tracer.grace_ns = sc.tracer.grace_ns.min(ms);
    sc.tracer.read_timeout_ns = ms / 2;
    sc.tracer.tcp_connect_timeout_ns = 5 * ms;
    sc.net.hop_delay_ns = 20_000;
    sc.net.late_pm = 0;
    sc.net.extra_delay_pm = 0;
    sc.faults.tick_base_ns = 500;
    sc.faults.tick_jitter_ns = 0;
    if let Some(n) = w.fail_at {
        sc.faults.scripted.push(scenario::ScriptedFault { site: scenario::Site::IsReadable, nth: n, errno: libc::EBADF, run_phase: true });
    }
    sc
}

/// One recorded operation of the concurrent history.
#[derive(Debug, Clone)]
enum Op {
    /// Round `k` was applied to the state somewhere inside the interval.
    Publish { k: usize, inv: u64, resp: u64 },
    Clear { inv: u64, resp: u64, reader: usize },
    Snapshot { inv: u64, resp: u64, reader: usize, digest: String },
    /// The run ended with a fatal error, which was recorded in the state somewhere inside
    /// the interval.
    Fail { inv: u64, resp: u64, text: String },
}

impl Op {
    fn interval(&self) -> (u64, u64) {
        match self {
            Op::Publish { inv, resp, .. } | Op::Clear { inv, resp, .. } | Op::Snapshot { inv, resp, .. } | Op::Fail { inv, resp, .. } => (*inv, *resp),
        }
    }
}

#[derive(Debug, Clone)]
struct OwnedRound {
    probes: Vec<ProbeStatus>,
    largest_ttl: u8,
    reason: CompletionReason,
}

/// Canonical text of everything observable in a state.
fn digest(state: &State) -> String {
    use std::fmt::Write;
    let mut s = String::with_capacity(1024);
    let _ = write!(s, "err={:?};rf={};", state.error(), state.round_flow_id().0);
    let mut ids = vec![State::default_flow_id()];
    ids.extend(state.flows().iter().map(|(_, id)| *id));
    for (f, id) in state.flows() {
        let _ = write!(s, "flow{}=[{}];", id.0, f);
    }
    for id in ids {
        let _ = write!(s, "F{}:rc={},r={:?};", id.0, state.round_count(id), state.round(id));
        for h in state.hops_for_flow(id) {
            let _ = write!(
                s,
                "h{}:{}/{}/{}/{}/{}:{:?}:{:?}:{:?}:{:?}:{:?}:{:?}:{}:{}:{}:{:?}:{:?}:{:?}:{:?};",
                h.ttl(),
                h.total_sent(),
                h.total_recv(),
                h.total_failed(),
                h.total_forward_loss(),
                h.total_backward_loss(),
                h.addrs_with_counts().collect::<Vec<_>>(),
                h.last_ms().map(f64::to_bits),
                h.best_ms().map(f64::to_bits),
                h.worst_ms().map(f64::to_bits),
                h.stddev_ms().to_bits(),
                h.javg_ms().to_bits(),
                h.last_src_port(),
                h.last_dest_port(),
                h.last_sequence(),
                h.last_icmp_packet_type(),
                h.last_nat_status(),
                h.samples(),
                h.extensions(),
            );
        }
    }
    s
}

/// The sequential model: the state obtained by applying rounds `a..b` to an empty state.
fn model_digest(rounds: &[OwnedRound], a: usize, b: usize, cfg: StateConfig, cache: &mut BTreeMap<(usize, usize), String>) -> String {
    if let Some(d) = cache.get(&(a, b)) {
        return d.clone();
    }
    let mut st = State::new(cfg);
    for r in &rounds[a..b] {
        st.update_from_round(&Round::new(&r.probes, TimeToLive(r.largest_ttl), r.reason));
    }
    let d = digest(&st);
    cache.insert((a, b), d.clone());
    d
}

/// The digest of the same state with a recorded error.
fn with_error(d: &str, err: Option<&str>) -> String {
    match err {
        None => d.to_string(),
        Some(e) => d.replacen("err=None;", &format!("err={:?};", Some(e)), 1),
    }
}

/// Is the history linearizable w.r.t. the model?  Brute-force search over linearization
/// orders that respect real-time order (histories are small).
fn linearizable(ops: &[Op], rounds: &[OwnedRound], cfg: StateConfig) -> Result<(), String> {
    let n = ops.len();
    let mut cache = BTreeMap::new();
    // state of the search: set of done ops (bitmask), model = (clear point a, applied b)
    #[allow(clippy::too_many_arguments)]
    fn dfs(
        done: u32,
        a: usize,
        b: usize,
        err: Option<&str>,
        ops: &[Op],
        rounds: &[OwnedRound],
        cfg: StateConfig,
        cache: &mut BTreeMap<(usize, usize), String>,
        seen: &mut HashSet<(u32, usize, usize, bool)>,
    ) -> bool {
        let n = ops.len();
        if done.count_ones() as usize == n {
            return true;
        }
        if !seen.insert((done, a, b, err.is_some())) {
            return false;
        }
        // an op may be linearized next iff no other pending op responded before it was invoked
        let min_resp = (0..n).filter(|i| done & (1 << i) == 0).map(|i| ops[i].interval().1).min().unwrap_or(u64::MAX);
        for i in 0..n {
            if done & (1 << i) != 0 {
                continue;
            }
            let (inv, _) = ops[i].interval();
            if inv > min_resp {
                continue;
            }
            match &ops[i] {
                Op::Publish { k, .. } => {
                    if *k == b && dfs(done | (1 << i), a, b + 1, err, ops, rounds, cfg, cache, seen) {
                        return true;
                    }
                }
                Op::Clear { .. } => {
                    // clearing replaces the whole state, the recorded error included
                    if dfs(done | (1 << i), b, b, None, ops, rounds, cfg, cache, seen) {
                        return true;
                    }
                }
                Op::Fail { text, .. } => {
                    if dfs(done | (1 << i), a, b, Some(text.as_str()), ops, rounds, cfg, cache, seen) {
                        return true;
                    }
                }
                Op::Snapshot { digest, .. } => {
                    if b <= rounds.len() && &with_error(&model_digest(rounds, a, b, cfg, cache), err) == digest && dfs(done | (1 << i), a, b, err, ops, rounds, cfg, cache, seen) {
                        return true;
                    }
                }
            }
        }
        false
    }
    if n > 30 {
        return Err(format!("history too long to check ({n} operations)"));
    }
    let mut seen = HashSet::new();
    if dfs(0, 0, 0, None, ops, rounds, cfg, &mut cache, &mut seen) {
        Ok(())
    } else {
        // explain: which snapshot equals no whole-round state at all
        for op in ops {
            if let Op::Snapshot { digest, reader, .. } = op {
                let mut whole = false;
                for a in 0..=rounds.len() {
                    for b in a..=rounds.len() {
                        let m = model_digest(rounds, a, b, cfg, &mut cache);
                        if &m == digest || ops.iter().any(|o| matches!(o, Op::Fail { text, .. } if &with_error(&m, Some(text.as_str())) == digest)) {
                            whole = true;
                        }
                    }
                }
                if !whole {
                    return Err(format!("a snapshot of reader {reader} equals no state obtained by applying a whole number of consecutive rounds to an empty state (torn read or mixture across a clear)"));
                }
            }
        }
        Err("every snapshot equals some whole-round state, but no order of the operations consistent with real time explains the history (e.g. a clear was lost, or a snapshot observed a later round before an earlier one)".to_string())
    }
}

thread_local! {
    static LAST_HISTORY: std::cell::RefCell<Option<(Vec<Op>, usize)>> = const { std::cell::RefCell::new(None) };
    static STATS: std::cell::RefCell<(u64, u64, HashSet<u64>, u64)> = std::cell::RefCell::new((0, 0, HashSet::new(), 0));
}

/// One execution under shuttle's scheduler.
fn execute(w: &Workload) {
    let sc = scenario_of(w);
    let cfg = StateConfig { max_samples: sc.tracer.max_samples, max_flows: sc.tracer.max_flows };
    run::install_panic_hook();
    let tick_seed = simcore::mix64(w.seed ^ 0x71c6);
    let t_start = clock::EPOCH_NS;
    let world = world::World::new(sc.clone(), Tape::from_seed(simcore::mix64(w.seed ^ 0x7a9e)));
    world::WORLD.with(|x| *x.borrow_mut() = Some(world));
    let Ok(tracer) = run::build_tracer(&sc) else {
        world::WORLD.with(|x| *x.borrow_mut() = None);
        return;
    };
    clock::enable(t_start, sc.faults.tick_base_ns.max(1), sc.faults.tick_jitter_ns, tick_seed);
    clock::set_logging(false);
    let stamp = Arc::new(AtomicU64::new(1));
    let history: Arc<Mutex<Vec<Op>>> = Arc::new(Mutex::new(Vec::new()));
    let rounds: Arc<Mutex<Vec<OwnedRound>>> = Arc::new(Mutex::new(Vec::new()));
    // tracer thread
    let tt: Tracer = tracer.clone();
    let (st, hi, ro) = (stamp.clone(), history.clone(), rounds.clone());
    let tracer_thread = shuttle::thread::spawn(move || {
        let last_return = std::cell::Cell::new(st.fetch_add(1, Ordering::SeqCst));
        let res = tt.verif_run_with::<world::SimSocket, world::SimPlatform, _>(|round| {
            let entered = st.fetch_add(1, Ordering::SeqCst);
            let k = {
                let mut r = ro.lock().unwrap();
                r.push(OwnedRound { probes: round.probes.to_vec(), largest_ttl: round.largest_ttl.0, reason: round.reason });
                r.len() - 1
            };
            hi.lock().unwrap().push(Op::Publish { k, inv: last_return.get(), resp: entered });
            world::with_world(world::World::on_publish);
            last_return.set(st.fetch_add(1, Ordering::SeqCst));
        });
        if let Err(e) = &res {
            let resp = st.fetch_add(1, Ordering::SeqCst);
            hi.lock().unwrap().push(Op::Fail { inv: last_return.get(), resp, text: e.to_string() });
        }
        res.is_ok()
    });
    // reader threads
    let mut readers = Vec::new();
    for (ri, ops) in w.readers.iter().enumerate() {
        let tr = tracer.clone();
        let ops = ops.clone();
        let (st, hi) = (stamp.clone(), history.clone());
        readers.push(shuttle::thread::spawn(move || {
            for is_clear in ops {
                // a point where the scheduler may switch even when no lock is contended
                shuttle::thread::yield_now();
                let inv = st.fetch_add(1, Ordering::SeqCst);
                if is_clear {
                    tr.clear();
                    let resp = st.fetch_add(1, Ordering::SeqCst);
                    hi.lock().unwrap().push(Op::Clear { inv, resp, reader: ri });
                } else {
                    let snap = tr.snapshot();
                    let resp = st.fetch_add(1, Ordering::SeqCst);
                    let d = digest(&snap);
                    hi.lock().unwrap().push(Op::Snapshot { inv, resp, reader: ri, digest: d });
                }
            }
        }));
    }
    let ok = tracer_thread.join().unwrap_or(false);
    for r in readers {
        let _ = r.join();
    }
    // what is left when everything has finished is observed too
    {
        let inv = stamp.fetch_add(1, Ordering::SeqCst);
        let snap = tracer.snapshot();
        let resp = stamp.fetch_add(1, Ordering::SeqCst);
        history.lock().unwrap().push(Op::Snapshot { inv, resp, reader: w.readers.len(), digest: digest(&snap) });
    }
    clock::disable();
    world::WORLD.with(|x| *x.borrow_mut() = None);
    let ops = history.lock().unwrap().clone();
    let rounds = rounds.lock().unwrap().clone();
    // reach statistics (outside the schedule: plain thread-local counters)
    STATS.with(|s| {
        let mut s = s.borrow_mut();
        s.0 += 1;
        s.1 += ops.len() as u64;
        // abstract interleaving: the order of operation kinds by response stamp
        let mut order: Vec<(u64, u8, u64)> = ops
            .iter()
            .map(|o| match o {
                Op::Publish { k, resp, .. } => (*resp, 0u8, *k as u64),
                Op::Clear { resp, reader, .. } => (*resp, 1, *reader as u64),
                Op::Snapshot { resp, reader, .. } => (*resp, 2, *reader as u64),
                Op::Fail { resp, .. } => (*resp, 3, 0),
            })
            .collect();
        order.sort_unstable();
        let mut h = simcore::Fnv::default();
        for (_, k, x) in &order {
            h.u8(*k);
            h.u64(*x);
        }
        s.2.insert(h.finish());
        if !ok {
            s.3 += 1;
        }
    });
    LAST_HISTORY.with(|h| *h.borrow_mut() = Some((ops.clone(), rounds.len())));
    if let Err(e) = linearizable(&ops, &rounds, cfg) {
        panic!("C20 VIOLATION: {e}");
    }
}

fn history_json() -> Value {
    LAST_HISTORY.with(|h| {
        let h = h.borrow();
        let Some((ops, nrounds)) = h.as_ref() else { return json!(null) };
        let mut items: Vec<Value> = ops
            .iter()
            .map(|o| match o {
                Op::Publish { k, inv, resp } => json!({"op": "publish", "round": k, "inv": inv, "resp": resp}),
                Op::Clear { inv, resp, reader } => json!({"op": "clear", "reader": reader, "inv": inv, "resp": resp}),
                Op::Snapshot { inv, resp, reader, digest } => json!({"op": "snapshot", "reader": reader, "inv": inv, "resp": resp, "digest_hash": format!("{:016x}", simcore::fnv1a(digest.as_bytes()))}),
                Op::Fail { inv, resp, text } => json!({"op": "tracer-failed", "inv": inv, "resp": resp, "error": text}),
            })
            .collect();
        items.sort_by_key(|v| v["inv"].as_u64());
        json!({"rounds_published": nrounds, "operations": items})
    })
}

fn shuttle_config(dir: &str) -> shuttle::Config {
    let mut cfg = shuttle::Config::new();
    cfg.stack_size = 8 << 20;
    cfg.failure_persistence = shuttle::FailurePersistence::File(Some(dir.into()));
    cfg
}

/// Explore `iterations` schedules of workload `w`; returns the failure message if any.
fn explore(w: &Workload, iterations: usize, pct: bool, dir: &str) -> Option<String> {
    let w2 = w.clone();
    let seed = simcore::mix64(w.seed ^ 0x5c4ed);
    let res = std::panic::catch_unwind(std::panic::AssertUnwindSafe(|| {
        if pct {
            let sched = shuttle::scheduler::PctScheduler::new_from_seed(seed, 3, iterations);
            shuttle::Runner::new(sched, shuttle_config(dir)).run(move || execute(&w2));
        } else {
            let sched = shuttle::scheduler::RandomScheduler::new_from_seed(seed, iterations);
            shuttle::Runner::new(sched, shuttle_config(dir)).run(move || execute(&w2));
        }
    }));
    match res {
        Ok(()) => None,
        Err(e) => Some(if let Some(s) = e.downcast_ref::<String>() {
            s.clone()
        } else if let Some(s) = e.downcast_ref::<&str>() {
            (*s).to_string()
        } else {
            "panic".to_string()
        }),
    }
}

fn newest_schedule(dir: &str) -> Option<(String, String)> {
    let mut best: Option<(std::time::SystemTime, std::path::PathBuf)> = None;
    for e in std::fs::read_dir(dir).ok()?.flatten() {
        let p = e.path();
        if p.file_name().and_then(|n| n.to_str()).is_some_and(|n| n.starts_with("schedule")) {
            let m = e.metadata().ok()?.modified().ok()?;
            if best.as_ref().map_or(true, |(t, _)| m >= *t) {
                best = Some((m, p));
            }
        }
    }
    let (_, p) = best?;
    let text = std::fs::read_to_string(&p).ok()?;
    Some((p.display().to_string(), text))
}

fn signature_of(msg: &str) -> String {
    if msg.contains("torn read") {
        "c20.torn-or-mixed-snapshot".to_string()
    } else if msg.contains("no order of the operations") {
        "c20.not-linearizable".to_string()
    } else if msg.contains("C20 VIOLATION") {
        "c20.violation".to_string()
    } else {
        format!("c20.panic.{}", msg.split_whitespace().take(4).collect::<Vec<_>>().join("-").chars().filter(|c| c.is_ascii_alphanumeric() || *c == '-').collect::<String>())
    }
}

/// Try smaller workloads (fewer rounds, fewer readers, shorter operation lists) and keep the
/// smallest one that still fails with the same signature.
fn minimise(w: &Workload, sig: &str, dir: &str) -> Workload {
    let mut best = w.clone();
    let mut improved = true;
    let budget = 3000;
    while improved {
        improved = false;
        let mut candidates: Vec<Workload> = Vec::new();
        if best.rounds > 1 {
            let mut c = best.clone();
            c.rounds -= 1;
            candidates.push(c);
        }
        for i in 0..best.readers.len() {
            if best.readers.len() > 1 {
                let mut c = best.clone();
                c.readers.remove(i);
                candidates.push(c);
            }
            for j in 0..best.readers[i].len() {
                if best.readers[i].len() > 1 {
                    let mut c = best.clone();
                    c.readers[i].remove(j);
                    candidates.push(c);
                }
            }
        }
        for c in candidates {
            if let Some(msg) = explore(&c, budget, false, dir) {
                if signature_of(&msg) == sig {
                    best = c;
                    improved = true;
                    break;
                }
            }
        }
    }
    best
}

fn run_check(tier: &str, batch_seed: u64) -> i32 {
    #[allow(non_snake_case)]
    let VERIF_DIR = simcore::verif_dir();
    let started = std::time::Instant::now();
    let findings = match Findings::load(&format!("{VERIF_DIR}/known-findings.jsonl")) {
        Ok(f) => f,
        Err(e) => {
            eprintln!("harness error: {e}");
            return EXIT_HARNESS;
        }
    };
    let scale: f64 = std::env::var("VERIF_SCALE").ok().and_then(|s| s.parse().ok()).unwrap_or(1.0);
    let (workloads, iterations) = if tier == "thorough" { (6000u64, 4000usize) } else { (480u64, 500usize) };
    let workloads = ((workloads as f64) * scale).ceil() as u64;
    let dir = format!("{VERIF_DIR}/replays/C20-schedules-{}", std::process::id());
    let _ = std::fs::create_dir_all(&dir);
    println!("check C20 tier={tier} VERIF_SEED={batch_seed} workloads={workloads} schedules/workload={iterations} (random + PCT) workers={}", simcore::pool::workers());
    let failures: Mutex<Vec<(u64, bool, String)>> = Mutex::new(Vec::new());
    let totals: Mutex<(u64, u64, HashSet<u64>, u64)> = Mutex::new((0, 0, HashSet::new(), 0));
    let stop = std::sync::atomic::AtomicBool::new(false);
    simcore::pool::run_indexed(
        workloads,
        simcore::pool::workers(),
        4,
        |i| {
            let w = Workload::from_seed(simcore::run_seed(batch_seed, "C20", 0, i));
            let pct = i % 3 == 2;
            let r = explore(&w, iterations, pct, &dir);
            let stats = STATS.with(|s| std::mem::replace(&mut *s.borrow_mut(), (0, 0, HashSet::new(), 0)));
            {
                let mut t = totals.lock().unwrap();
                t.0 += stats.0;
                t.1 += stats.1;
                t.2.extend(stats.2);
                t.3 += stats.3;
            }
            if let Some(msg) = r {
                failures.lock().unwrap().push((w.seed, pct, msg));
            }
        },
        |_, ()| {},
        &stop,
    );
    let mut failures = failures.into_inner().unwrap();
    failures.sort();
    let totals = totals.into_inner().unwrap();
    let mut exit = EXIT_OK;
    let mut new_violations = 0u64;
    let mut replays = Vec::new();
    let mut reported: HashSet<String> = HashSet::new();
    let mut known: BTreeMap<String, u64> = BTreeMap::new();
    for (seed, pct, msg) in &failures {
        let sig = signature_of(msg);
        if let Some(f) = findings.matching("C20", &sig) {
            *known.entry(f.signature.clone()).or_insert(0) += 1;
            continue;
        }
        if !reported.insert(sig.clone()) {
            continue;
        }
        // minimise the workload, then re-find a failing schedule for the minimal one
        let w = Workload::from_seed(*seed);
        let small = minimise(&w, &sig, &dir);
        let msg2 = explore(&small, 20_000, *pct, &dir).or_else(|| explore(&small, 20_000, !*pct, &dir));
        let (final_w, final_msg) = match msg2 {
            Some(m) if signature_of(&m) == sig => (small, m),
            _ => {
                let m = explore(&w, iterations, *pct, &dir).unwrap_or_else(|| msg.clone());
                (w, m)
            }
        };
        let sched = newest_schedule(&dir);
        let path = format!("{VERIF_DIR}/replays/C20-{sig}-{seed}.json");
        let doc = json!({
            "engine": "snapsim",
            "property": "C20",
            "signature": sig,
            "detail": final_msg,
            "workload": final_w.to_json(),
            "scenario": scenario_of(&final_w).to_json(),
            "schedule": sched.as_ref().map(|(_, t)| t.clone()),
            "history": history_json(),
        });
        if std::fs::write(&path, serde_json::to_string_pretty(&doc).unwrap_or_default() + "\n").is_err() {
            eprintln!("harness error: cannot write {path}");
            return EXIT_HARNESS;
        }
        println!("  violation {sig}: {final_msg}");
        println!("VIOLATION property=C20 replay={path}");
        replays.push(path);
        new_violations += 1;
        exit = EXIT_VIOLATION;
    }
    for f in findings.open_for("C20") {
        println!("KNOWN-FINDING: property=C20 {} [signature {} observed {} times]", f.what, f.signature, known.get(&f.signature).copied().unwrap_or(0));
    }
    let _ = std::fs::remove_dir_all(&dir);
    let wall = started.elapsed().as_secs_f64();
    let mut counters = Counters::default();
    counters.add("schedules_executed", totals.0);
    counters.add("operations_recorded", totals.1);
    counters.add("tracer_runs_ending_in_error", totals.3);
    let mut extra = serde_json::Map::new();
    extra.insert("engine".into(), json!("snapsim (shuttle 0.9.3: RandomScheduler and PctScheduler depth 3)"));
    extra.insert("workloads".into(), json!(workloads));
    extra.insert("schedules_per_workload".into(), json!(iterations));
    extra.insert("counters".into(), counters.to_json());
    extra.insert("runs_per_hour".into(), json!((totals.0 as f64 / wall.max(1e-9) * 3600.0) as u64));
    extra.insert("replays".into(), json!(replays));
    extra.insert(
        "components".into(),
        json!({
            "real": ["Tracer::snapshot / Tracer::clear / the publishing handler of TracerInner", "State::update_from_round", "the whole tracer loop of tracersim underneath"],
            "stubbed": ["parking_lot::RwLock -> shuttle::sync::RwLock behind a parking_lot-shaped facade (feature verif-shuttle)", "sockets, platform, network, clock as in tracersim", "OS threads -> shuttle continuations"],
        }),
    );
    let sample_w = Workload::from_seed(simcore::run_seed(batch_seed, "C20", 0, 0));
    let ev = Evidence {
        property_id: "C20".into(),
        tier: tier.into(),
        seed: batch_seed,
        level: "exploration".into(),
        evaluations: totals.0,
        distinct_nontrivial: totals.2.len() as u64,
        rule: "each evaluation = one seeded schedule (shuttle RandomScheduler or PCT) of one workload (tracer thread publishing 2..5 rounds over the simulated network; 1..3 reader threads with 1..4 snapshot/clear operations each; in a third of the workloads the tracer dies of a fatal socket error at a drawn point, so that the error hand-off races with the readers; one more snapshot is taken when every thread has finished); non-trivial = at least one reader operation overlapped the tracer's run; distinct = distinct orders of (operation kind, round or reader) by response stamp".into(),
        samples: vec![json!({"workload": sample_w.to_json(), "scenario": scenario_of(&sample_w).to_json()})],
        exhaustive: false,
        extra,
        assumptions: vec![
            "shuttle's scheduler decides every interleaving at lock operations and yields; code between two such points is atomic (true for a lock-protected state: the only shared mutable state is behind the RwLock)".into(),
            "parking_lot::RwLock is replaced by shuttle's RwLock: fairness/upgrade details of parking_lot itself are outside the claim".into(),
        ],
        wall_s: wall,
        violations: new_violations,
    };
    if let Err(e) = ev.write(&format!("{VERIF_DIR}/evidence/C20.json")) {
        eprintln!("harness error: {e}");
        return EXIT_HARNESS;
    }
    println!(
        "C20 {}: {} schedules, {} operations, {} distinct operation orders, {:.1}s, violations={new_violations}",
        if exit == EXIT_OK { "held" } else { "VIOLATED" },
        totals.0,
        totals.1,
        totals.2.len(),
        wall
    );
    exit
}

fn run_replay(path: &str) -> i32 {
    #[allow(non_snake_case)]
    let VERIF_DIR = simcore::verif_dir();
    let Ok(text) = std::fs::read_to_string(path) else {
        eprintln!("harness error: cannot read {path}");
        return EXIT_HARNESS;
    };
    let Ok(doc) = serde_json::from_str::<Value>(&text) else { return EXIT_HARNESS };
    let Some(w) = Workload::from_json(&doc["workload"]) else { return EXIT_HARNESS };
    let Some(schedule) = doc["schedule"].as_str() else {
        eprintln!("harness error: no schedule in {path}");
        return EXIT_HARNESS;
    };
    let want = doc["signature"].as_str().unwrap_or("");
    let schedule = schedule.to_string();
    let res = std::panic::catch_unwind(std::panic::AssertUnwindSafe(|| {
        let mut cfg = shuttle::Config::new();
        cfg.stack_size = 8 << 20;
        cfg.failure_persistence = shuttle::FailurePersistence::None;
        let sched = shuttle::scheduler::ReplayScheduler::new_from_encoded(&schedule);
        shuttle::Runner::new(sched, cfg).run(move || execute(&w));
    }));
    match res {
        Ok(()) => {
            println!("replay {path}: the schedule no longer violates the property on this tree");
            EXIT_OK
        }
        Err(e) => {
            let msg = e.downcast_ref::<String>().cloned().or_else(|| e.downcast_ref::<&str>().map(|s| (*s).to_string())).unwrap_or_default();
            println!("replay {path}: {msg}");
            println!("{}", serde_json::to_string_pretty(&history_json()).unwrap_or_default());
            if msg.contains("C20 VIOLATION") {
                if signature_of(&msg) != want {
                    println!("note: violated differently from the recorded signature {want}");
                }
                println!("VIOLATION property=C20 replay={path}");
                return EXIT_VIOLATION;
            }
            // the recorded schedule does not fit this tree any more (the code between the
            // scheduling points changed): re-explore the recorded workload instead
            println!("note: the recorded schedule cannot be followed on this tree; exploring the recorded workload with 20000 seeded schedules instead");
            let Some(w) = Workload::from_json(&doc["workload"]) else { return EXIT_HARNESS };
            let dir = format!("{VERIF_DIR}/replays/C20-schedules-{}", std::process::id());
            let _ = std::fs::create_dir_all(&dir);
            let found = explore(&w, 20_000, false, &dir);
            let _ = std::fs::remove_dir_all(&dir);
            match found {
                Some(m) if m.contains("C20 VIOLATION") => {
                    println!("{m}");
                    println!("VIOLATION property=C20 replay={path}");
                    EXIT_VIOLATION
                }
                Some(m) => {
                    eprintln!("harness error: {m}");
                    EXIT_HARNESS
                }
                None => {
                    println!("replay {path}: the workload no longer violates the property on this tree");
                    EXIT_OK
                }
            }
        }
    }
}

fn main() {
    unsafe {
        libc::mallopt(libc::M_MMAP_THRESHOLD, 1 << 30);
        libc::mallopt(libc::M_TRIM_THRESHOLD, 1 << 30);
    }
    let args: Vec<String> = std::env::args().collect();
    let rc = match args.get(1).map(String::as_str) {
        Some("check") => {
            let tier = args.get(3).map_or("quick", String::as_str).to_string();
            std::panic::catch_unwind(move || run_check(&tier, simcore::env_seed())).unwrap_or(EXIT_HARNESS)
        }
        Some("replay") => match args.get(3) {
            Some(p) => run_replay(p),
            None => EXIT_HARNESS,
        },
        _ => {
            eprintln!("usage: snapsim check C20 <quick|thorough> | snapsim replay C20 <file>");
            EXIT_HARNESS
        }
    };
    std::process::exit(rc);
}
