//! Scenario generators (swarm style): every dimension is drawn per run from the tape,
//! 0 being the simplest choice.

use crate::scenario::{
    default_source, default_target, router_addr, FaultCfg, InjectCfg, NatCfg, NetCfg, PathCfg, Ports,
    Proto, Quote, RouterCfg, Scenario, Strat, TargetBehaviour, TargetCfg, TracerCfg,
};
use crate::wire::{mpls_object, ErrorLayout, ExtObject, MplsEntry};
use simcore::Tape;
use std::net::{IpAddr, Ipv4Addr, Ipv6Addr};

/// A configuration cell.
#[derive(Debug, Clone, Copy, PartialEq, Eq, Hash)]
pub struct Cell {
    pub proto: Proto,
    pub strat: Strat,
    /// 0 none, 1 fixed src, 2 fixed dest, 3 fixed both
    pub ports: u8,
    pub unprivileged: bool,
}

/// The configuration cells the tracer can execute (accepted by the builder and
/// implemented by the strategy).
#[must_use]
pub fn executable_cells() -> Vec<Cell> {
    let mut v = Vec::new();
    for unprivileged in [false, true] {
        v.push(Cell { proto: Proto::Icmp, strat: Strat::Classic, ports: 0, unprivileged });
        for ports in [1, 2] {
            v.push(Cell { proto: Proto::Udp, strat: Strat::Classic, ports, unprivileged });
            v.push(Cell { proto: Proto::Tcp, strat: Strat::Classic, ports, unprivileged });
        }
    }
    for strat in [Strat::Paris, Strat::Dublin] {
        for ports in [1, 2, 3] {
            v.push(Cell { proto: Proto::Udp, strat, ports, unprivileged: false });
        }
        // the builder accepts a multipath strategy for ICMP too (the command line does
        // not); it has no meaning there and must change nothing
        v.push(Cell { proto: Proto::Icmp, strat, ports: 0, unprivileged: false });
    }
    v
}

/// What a family allows the generator to vary.
#[derive(Debug, Clone)]
pub struct Profile {
    pub cells: Vec<Cell>,
    pub families: [bool; 2],
    /// Network delivery faults (loss, duplication, delay, late).
    pub delivery_faults: bool,
    pub late: bool,
    pub ecmp: bool,
    pub route_change: bool,
    pub hop_kinds: bool,
    pub target_kinds: bool,
    pub extensions: bool,
    pub quote_variants: bool,
    pub tos_rewrite: bool,
    pub nat: bool,
    pub sock_faults: bool,
    pub addr_in_use: bool,
    pub stalls: bool,
    pub inject: bool,
    pub max_rounds: u32,
    pub max_path: u32,
    /// Draw first/max ttl, inflight over their whole ranges.
    pub wide_ttl: bool,
    /// Draw min/max/grace/read-timeout independently (incl. zeros).
    pub wide_timing: bool,
    pub boundary_sequences: bool,
    pub unreachable_hops: bool,
    pub reply_from_other: bool,
    /// Most responders emit RFC 4884 structures.
    pub ext_heavy: bool,
    /// Several ECMP paths in most runs.
    pub ecmp_heavy: bool,
    pub small_max_flows: bool,
}

impl Profile {
    #[must_use]
    pub fn base() -> Self {
        Self {
            cells: executable_cells(),
            families: [true, true],
            delivery_faults: true,
            late: true,
            ecmp: true,
            route_change: true,
            hop_kinds: true,
            target_kinds: true,
            extensions: true,
            quote_variants: true,
            tos_rewrite: true,
            nat: false,
            sock_faults: false,
            addr_in_use: false,
            stalls: true,
            inject: false,
            max_rounds: 12,
            max_path: 40,
            wide_ttl: true,
            wide_timing: false,
            boundary_sequences: true,
            unreachable_hops: true,
            reply_from_other: true,
            ext_heavy: false,
            ecmp_heavy: false,
            small_max_flows: false,
        }
    }
}

fn gen_objects(t: &mut Tape) -> Vec<ExtObject> {
    let n = t.weighted(&[40, 35, 15, 7, 3]);
    let mut v = Vec::with_capacity(n);
    for _ in 0..n {
        if t.chance(650) {
            let members = 1 + t.weighted(&[60, 25, 10, 5]);
            let mut es = Vec::with_capacity(members);
            for m in 0..members {
                es.push(MplsEntry {
                    label: match t.pick(4) {
                        0 => 16 + t.draw(1000),
                        1 => 0xfffff,
                        2 => 0,
                        _ => t.draw(0x10_0000),
                    },
                    exp: t.draw(8) as u8,
                    // RFC 4950: S is set on the bottom entry only; a router may also quote a
                    // stack whose bottom it does not include (S clear on the last entry)
                    bos: u8::from(m + 1 == members && !t.chance(60)),
                    ttl: match t.pick(3) {
                        0 => 1,
                        1 => 255,
                        _ => t.draw(256) as u8,
                    },
                });
            }
            let mut o = mpls_object(&es);
            // malformed: one to three octets beyond the last whole label stack entry
            if t.chance(40) {
                for _ in 0..1 + t.draw(3) {
                    o.payload.push(t.draw(256) as u8);
                }
            }
            v.push(o);
        } else {
            let class = match t.pick(4) {
                0 => 2,
                1 => 3,
                2 => 255,
                _ => t.draw(256) as u8,
            };
            // class 1 with another c-type is still "MPLS" for a class-only dispatcher; keep
            // unknown objects away from class 1 so the truth is unambiguous
            let class = if class == 1 { 4 } else { class };
            // one object in five of an unknown class has a length that is not a whole number
            // of 32-bit words: the length attribute counts octets, and the next object starts
            // where this one ends
            let len = if class != 1 && t.chance(200) { 1 + t.draw(19) as usize } else { 4 * t.weighted(&[30, 30, 20, 10, 10]) };
            let payload = (0..len).map(|_| t.draw(256) as u8).collect();
            v.push(ExtObject {
                class,
                ctype: t.draw(256) as u8,
                payload,
            });
        }
    }
    v
}

fn gen_layout(t: &mut Tape, p: &Profile) -> ErrorLayout {
    if !p.extensions {
        return ErrorLayout::Plain;
    }
    let weights: [u32; 5] = if p.ext_heavy { [10, 35, 15, 25, 15] } else { [55, 17, 10, 12, 6] };
    match t.weighted(&weights) {
        0 => ErrorLayout::Plain,
        1 => ErrorLayout::Compliant(gen_objects(t)),
        2 => ErrorLayout::CompliantNoExt,
        3 => ErrorLayout::Legacy128(gen_objects(t)),
        _ => ErrorLayout::CompliantShortLength(gen_objects(t)),
    }
}

fn gen_quote(t: &mut Tape, p: &Profile) -> Quote {
    if !p.quote_variants {
        return Quote::Min8;
    }
    match t.weighted(&[40, 30, 30]) {
        0 => Quote::Min8,
        1 => Quote::Full,
        _ => Quote::Bytes(8 + t.skewed(600) as u16),
    }
}

fn gen_router(t: &mut Tape, p: &Profile, v6: bool, hop: u32, branch: u32, variant: u32) -> RouterCfg {
    let mut r = RouterCfg {
        addr: router_addr(v6, hop, branch, variant),
        silent: false,
        rate_limit: 1,
        duplicate: false,
        extra_delay_ns: 0,
        quote: gen_quote(t, p),
        layout: gen_layout(t, p),
        // what the quoted header's TTL / hop limit reads: 1 or 0 on an ordinary router, more
        // behind an MPLS tunnel without TTL propagation or a device that rewrites the TTL
        quoted_ttl: match t.weighted(&[60, 25, 5, 5, 5]) {
            0 => 1,
            1 => 0,
            2 => 2,
            3 => 2 + t.draw(62) as u8,
            _ => 255,
        },
        tos_rewrite: None,
        nat: None,
        unreachable_code: None,
    };
    if p.hop_kinds {
        match t.weighted(&[70, 10, 8, 5, 7]) {
            1 => r.silent = true,
            2 => r.rate_limit = 2 + t.draw(3),
            3 => r.duplicate = true,
            4 => r.extra_delay_ns = u64::from(t.skewed(400_000)) * 1000,
            _ => {}
        }
    }
    if p.tos_rewrite && t.chance(60) {
        r.tos_rewrite = Some(t.draw(256) as u8);
    }
    r
}

fn gen_paths(t: &mut Tape, p: &Profile, v6: bool, variant: u32, npaths: u32, base_len: u32) -> Vec<PathCfg> {
    let mut paths = Vec::new();
    // a shared trunk followed by per-path tails (ECMP usually forks in the middle)
    let fork_at = if npaths > 1 { t.draw(base_len + 1) } else { base_len };
    let trunk: Vec<RouterCfg> = (1..=fork_at.min(base_len))
        .map(|h| gen_router(t, p, v6, h, 0, variant))
        .collect();
    for b in 0..npaths {
        let len = if b == 0 || !t.chance(300) {
            base_len
        } else {
            // unequal branch lengths
            (base_len + t.draw(4)).saturating_sub(t.draw(3)).max(fork_at)
        };
        let mut routers = trunk.clone();
        routers.truncate(len as usize);
        for h in (routers.len() as u32 + 1)..=len {
            routers.push(gen_router(t, p, v6, h, b + 1, variant));
        }
        paths.push(PathCfg { routers });
    }
    paths
}

/// Sequence values that put boundaries close.
fn gen_initial_seq(t: &mut Tape, p: &Profile) -> u16 {
    if !p.boundary_sequences {
        return 33434;
    }
    match t.weighted(&[40, 10, 10, 15, 25]) {
        0 => 33434,
        1 => 0,
        2 => 64511,
        3 => 63999 + t.draw(513) as u16,
        _ => t.draw(64512) as u16,
    }
}

/// Generate a scenario under `p`.
pub fn gen_scenario(t: &mut Tape, p: &Profile) -> Scenario {
    let cell = p.cells[t.pick(p.cells.len())];
    let v6 = match p.families {
        [true, true] => t.chance(450),
        [false, true] => true,
        _ => false,
    };
    let seq = gen_initial_seq(t, p);
    let fixed_port = match t.pick(4) {
        0 => 33434u16,
        1 => 80,
        2 => 1 + t.draw(1023) as u16,
        _ => 1024 + t.draw(64000) as u16,
    };
    let other_port = match t.pick(3) {
        0 => 5000u16,
        1 => 443,
        _ => 1 + t.draw(65534) as u16,
    };
    let ports = match cell.ports {
        0 => Ports::None,
        1 => Ports::FixedSrc(fixed_port),
        2 => Ports::FixedDest(fixed_port),
        _ => Ports::FixedBoth(fixed_port, other_port),
    };
    // path
    let base_len = if p.max_path <= 1 {
        0
    } else {
        match t.weighted(&[60, 30, 10]) {
            0 => t.draw(8.min(p.max_path)),
            1 => t.draw(20.min(p.max_path)),
            _ => t.draw(p.max_path),
        }
    };
    let npaths = if p.ecmp_heavy {
        1 + t.weighted(&[10, 40, 30, 20]) as u32
    } else if p.ecmp {
        1 + t.weighted(&[65, 20, 10, 5]) as u32
    } else {
        1
    };
    let paths = gen_paths(t, p, v6, 0, npaths, base_len);
    let route_change = if p.route_change && t.chance(100) {
        let at = 1 + t.draw(4);
        let new_len = (base_len + t.draw(5)).saturating_sub(t.draw(4));
        let np = 1 + t.draw(2);
        Some((at, gen_paths(t, p, v6, 1, np, new_len)))
    } else {
        None
    };
    let dist = base_len + 1;
    // ttl range
    let (first_ttl, max_ttl, max_inflight) = if p.wide_ttl {
        let first = match t.weighted(&[70, 20, 10]) {
            0 => 1,
            1 => 1 + t.draw(dist.min(253)),
            _ => 1 + t.draw(254),
        } as u8;
        let max = match t.weighted(&[50, 25, 25]) {
            0 => 64u32.max(u32::from(first)),
            1 => (dist + t.draw(6)).clamp(u32::from(first), 254),
            _ => u32::from(first) + t.draw(255 - u32::from(first)),
        } as u8;
        let infl = match t.weighted(&[55, 20, 15, 10]) {
            0 => 24,
            1 => 1 + t.draw(8),
            2 => 1 + t.draw(64),
            _ => 1 + t.draw(255),
        } as u8;
        (first, max, infl)
    } else {
        (1, 64, 24)
    };
    // timing (nanoseconds)
    let ms = 1_000_000u64;
    let (min_round, max_round, grace, read_timeout) = if p.wide_timing {
        let max_round = match t.pick(4) {
            0 => 0,
            1 => u64::from(t.draw(50)) * ms / 10,
            _ => u64::from(1 + t.draw(300)) * ms,
        };
        let min_round = match t.pick(3) {
            0 => max_round,
            1 => 0,
            _ => u64::from(t.draw((max_round / 1000).max(1) as u32 + 1)) * 1000,
        }
        .min(max_round);
        let grace = match t.pick(3) {
            0 => 0,
            1 => u64::from(t.draw(50)) * ms,
            _ => u64::from(t.draw(400)) * ms / 4,
        };
        let read_timeout = match t.pick(4) {
            0 => 10 * ms,
            1 => ms,
            2 => u64::from(1 + t.draw(40)) * ms / 2,
            _ => u64::from(t.draw(30)) * ms,
        };
        (min_round, max_round, grace, read_timeout)
    } else {
        let max_round = u64::from(20 + t.skewed(480)) * ms;
        let min_round = if t.chance(500) { max_round } else { u64::from(t.draw((max_round / ms) as u32 + 1)) * ms };
        let grace = u64::from(t.skewed(60)) * ms;
        let read_timeout = u64::from(1 + t.skewed(19)) * ms;
        (min_round, max_round, grace, read_timeout)
    };
    let hop_delay_ns = u64::from(20 + t.skewed(3000)) * 1000;
    let jitter_ns = if p.delivery_faults { u64::from(t.skewed(5000)) * 1000 } else { 0 };
    // clock ticks: keep the number of loop iterations per round bounded
    let mut tick_base = match t.pick(3) {
        0 => 100,
        1 => 1 + u64::from(t.draw(50)),
        _ => 100 + u64::from(t.skewed(5000)),
    };
    let tick_jitter = if t.chance(500) { tick_base } else { 0 };
    let iter_time = read_timeout.max(3 * tick_base);
    if max_round / iter_time.max(1) > 4000 {
        tick_base = (max_round / 4000 / 3).max(tick_base);
    }
    let rounds = 1 + match t.weighted(&[60, 30, 10]) {
        0 => t.draw(3),
        1 => t.draw(8.min(p.max_rounds)),
        _ => t.draw(p.max_rounds),
    };
    let packet_size = {
        let min = match (v6, cell.proto) {
            (false, _) => 28u32,
            (true, _) => 48,
        };
        let v = match t.weighted(&[40, 15, 15, 30]) {
            0 => 84u32.max(min),
            1 => min,
            2 => 1024,
            _ => min + t.draw(1024 - min + 1),
        };
        v as u16
    };
    let tracer = TracerCfg {
        v6,
        proto: cell.proto,
        strat: cell.strat,
        ports,
        unprivileged: cell.unprivileged,
        ext_enabled: t.chance(500),
        first_ttl,
        max_ttl,
        max_inflight,
        initial_seq: seq,
        packet_size,
        pattern: match t.pick(4) {
            0 => 0,
            1 => 0xff,
            2 => 0x20,
            _ => t.draw(256) as u8,
        },
        tos: match t.pick(3) {
            0 => 0,
            1 => 0xe0,
            _ => t.draw(256) as u8,
        },
        trace_id: match t.pick(3) {
            0 => 0x1234,
            1 => 1 + t.draw(65535) as u16,
            _ => 0,
        },
        rounds,
        min_round_ns: min_round,
        max_round_ns: max_round,
        grace_ns: grace,
        read_timeout_ns: read_timeout,
        tcp_connect_timeout_ns: match t.pick(3) {
            0 => 1000 * ms,
            1 => u64::from(1 + t.draw(200)) * ms,
            _ => u64::from(1 + t.draw(3000)) * ms,
        },
        max_samples: match t.pick(4) {
            0 => 256,
            1 => 0,
            2 => 1,
            _ => 1 + t.draw(20) as usize,
        },
        max_flows: if p.small_max_flows {
            1 + t.draw(6) as usize
        } else {
            // a limit of zero is accepted by the builder: no per-round flow is ever recorded
            match t.weighted(&[32, 32, 32, 4]) {
                0 => 64,
                1 => 1 + t.draw(4) as usize,
                2 => 1 + t.draw(64) as usize,
                _ => 0,
            }
        },
        explicit_source: t.chance(300),
        interface: None,
        source: if t.chance(150) {
            if v6 {
                IpAddr::V6(Ipv6Addr::new(0xffff, 0xffff, 0xffff, 0xffff, 0xffff, 0xffff, 0xffff, 0xfffe))
            } else {
                IpAddr::V4(Ipv4Addr::new(255, 255, 255, 254))
            }
        } else {
            default_source(v6)
        },
        // the addresses feed every pseudo-header checksum: all-ones and sparse patterns too
        target: match (t.weighted(&[70, 10, 10, 10]), v6) {
            (0, _) => default_target(v6),
            (1, false) => IpAddr::V4(Ipv4Addr::new(255, 255, 255, 253)),
            (2, false) => IpAddr::V4(Ipv4Addr::new(128, 0, 0, 1)),
            (_, false) => IpAddr::V4(Ipv4Addr::new(198, 51, 100, 255)),
            (1, true) => IpAddr::V6(Ipv6Addr::new(0xffff, 0xffff, 0xffff, 0xffff, 0xffff, 0xffff, 0xffff, 0xfffd)),
            (2, true) => IpAddr::V6(Ipv6Addr::new(0x2001, 0xdb8, 0, 0, 0, 0, 0, 1)),
            (_, true) => IpAddr::V6(Ipv6Addr::new(0x2001, 0xdb8, 0xffff, 0xffff, 0, 0, 0xffff, 0xff00)),
        },
    };
    let mut tracer = tracer;
    if !tracer.explicit_source && t.chance(150) {
        tracer.interface = Some("sim0".to_string());
    }
    let target = TargetCfg {
        behaviour: if p.target_kinds && t.chance(120) {
            TargetBehaviour::Silent
        } else {
            TargetBehaviour::Normal
        },
        reply_from: if p.reply_from_other && p.target_kinds && t.chance(50) {
            Some(router_addr(v6, 999, 9, 3))
        } else {
            None
        },
        tcp_open: !t.chance(400),
        tcp_reject_code: if p.target_kinds && t.chance(80) { Some([13u8, 10, 9, 1, 3, 4, 3, 4][t.pick(8)]) } else { None },
        quote: gen_quote(t, p),
        layout: gen_layout(t, p),
    };
    let mut net = NetCfg {
        paths,
        route_change,
        target,
        probe_loss_pm: 0,
        resp_loss_pm: 0,
        dup_pm: 0,
        extra_delay_pm: 0,
        late_pm: 0,
        hop_delay_ns,
        jitter_ns,
        ecmp_salt: t.draw(1_000_000),
        // one run in twenty-five has a device that inserts IP options (IPv4 only)
        ip_options: if !v6 && t.chance(40) { Some((1 + t.draw(6), 1 + t.draw(10) as u8)) } else { None },
    };
    if p.delivery_faults && t.chance(750) {
        // per-run rates, mean well below 15 %
        net.probe_loss_pm = if t.chance(500) { t.skewed(300) } else { 0 };
        net.resp_loss_pm = if t.chance(500) { t.skewed(300) } else { 0 };
        net.dup_pm = if t.chance(400) { t.skewed(300) } else { 0 };
        net.extra_delay_pm = if t.chance(400) { t.skewed(300) } else { 0 };
        net.late_pm = if p.late && t.chance(300) { t.skewed(200) } else { 0 };
    }
    if p.unreachable_hops && t.chance(50) {
        // one blackhole router returning Destination Unreachable
        let np = net.paths.len();
        let pi = t.pick(np);
        let len = net.paths[pi].routers.len();
        if len > 0 {
            let ri = t.pick(len);
            net.paths[pi].routers[ri].unreachable_code = Some(match t.pick(3) {
                0 => 1,
                1 => 13,
                _ => t.draw(16) as u8,
            });
        }
    }
    if p.nat {
        let devices = t.weighted(&[30, 40, 20, 10]);
        let fixed_src = matches!(tracer.ports, Ports::FixedSrc(_) | Ports::FixedBoth(..));
        for _ in 0..devices {
            let np = net.paths.len();
            let pi = t.pick(np);
            let len = net.paths[pi].routers.len();
            if len == 0 {
                continue;
            }
            let ri = t.pick(len);
            let port_ok = tracer.proto == Proto::Udp && tracer.strat == Strat::Dublin && !fixed_src;
            let rewrite_port = port_ok && t.chance(400);
            let rewrite_addr = !rewrite_port || t.chance(600);
            net.paths[pi].routers[ri].nat = Some(NatCfg {
                rewrite_addr,
                rewrite_port,
                before_quote: t.chance(500),
            });
        }
    }
    let mut faults = FaultCfg {
        sock_pm: 0,
        sock_benign_pm: 600,
        scripted: Vec::new(),
        stall_pm: 0,
        stall_max_ns: 0,
        addr_in_use_pm: 0, addr_in_use_from_round: 0, addr_in_use_udp: false, addr_in_use_burst: None, wall_clock_back: None,
        tick_base_ns: tick_base,
        tick_jitter_ns: tick_jitter,
    };
    if p.stalls && t.chance(300) {
        faults.stall_pm = 1 + t.skewed(100);
        faults.stall_max_ns = u64::from(1 + t.skewed(200)) * ms;
    }
    if p.sock_faults && t.chance(700) {
        faults.sock_pm = 1 + t.skewed(60);
        faults.sock_benign_pm = t.draw(1001);
    }
    if p.addr_in_use && tracer.proto == Proto::Tcp && t.chance(700) {
        faults.addr_in_use_pm = match t.pick(4) {
            0 => 100,
            1 => 500,
            2 => 950,
            _ => 1 + t.draw(1000),
        };
    }
    if faults.addr_in_use_pm > 0 && tracer.initial_seq > 63_999 {
        // TCP port-collision storms from an initial sequence within 512 of the maximum can
        // make two consecutive rounds reuse sequence numbers (known finding on C07, which
        // has its own family for it); keep every other family clear of that corner
        tracer.initial_seq = 63_999 - (tracer.initial_seq - 63_999);
    }
    let inject = if p.inject && t.chance(850) {
        InjectCfg {
            replay_prev_round_pm: if t.chance(500) { 1000 } else { t.skewed(1000) },
            never_sent_pm: if t.chance(600) { 20 + t.skewed(400) } else { 0 },
            foreign_pm: if t.chance(600) { 20 + t.skewed(400) } else { 0 },
            unrelated_pm: if t.chance(400) { 20 + t.skewed(300) } else { 0 },
            corrupt_pm: 0,
            icmp_other_destination: false,
            chatter_gap_ns: 0,
        }
    } else {
        InjectCfg::default()
    };
    let stable = net.paths.len() == 1
        && net.route_change.is_none()
        && inject == InjectCfg::default()
        && net.target.reply_from.is_none()
        && net.paths[0].routers.iter().all(|r| r.unreachable_code.is_none() && r.nat.is_none());
    Scenario {
        tracer,
        net,
        inject,
        faults,
        stable,
        light: false,
        mutation: None,
        sniff: false,
        epoch_liveness: false,
        synth: None,
        neighbour: None,
        record_rx: false,
        alone_equal: false,
        clear_after_round: None,
    }
}
