//! Oracles over a finished run: ground truth kept by the simulated world against what the
//! tracer published.

use crate::net::{carrier, Carrier};
use crate::run::{RunEnd, RunRecord};
use crate::scenario::{Ports, Proto, Site, Strat, TargetBehaviour};
use crate::wire::Transport;
use crate::world::{Attempt, AttemptOutcome, RespClass, RespKind, RespRec, SockKind, WireRec, World};
use std::net::IpAddr;
use trippy_core::{CompletionReason, IcmpPacketType, ProbeStatus};

/// One oracle verdict.
#[derive(Debug, Clone, PartialEq, Eq)]
pub struct Violation {
    pub prop: &'static str,
    /// Oracle id + normalised location: the key for shrinking and for known findings.
    pub sig: String,
    pub detail: String,
}

impl Violation {
    #[must_use]
    pub fn new(prop: &'static str, sig: impl Into<String>, detail: impl Into<String>) -> Self {
        Self {
            prop,
            sig: sig.into(),
            detail: detail.into(),
        }
    }
}

/// What a socket-level failure of one call means for the tracer (transcribed per protocol x
/// family x call site from the error mapping at the pinned commit; part of the oracle).
#[derive(Debug, Clone, Copy, PartialEq, Eq)]
pub enum Effect {
    Benign,
    ProbeFailed,
    Reissue,
    Fatal,
}

#[must_use]
pub fn classify(site: Site, errno: i32, v6: bool, proto: Proto, sock_kind: Option<SockKind>, running: bool) -> Effect {
    if !running {
        return Effect::Fatal;
    }
    match site {
        Site::NewSocket => Effect::Fatal,
        Site::Bind => match errno {
            libc::EINPROGRESS => Effect::Benign,
            libc::EADDRINUSE => {
                if proto == Proto::Tcp {
                    Effect::Reissue
                } else {
                    Effect::Fatal
                }
            }
            libc::EADDRNOTAVAIL if !v6 => Effect::ProbeFailed,
            _ => Effect::Fatal,
        },
        Site::SetTtl | Site::SetTos | Site::SetHops | Site::SetHdrIncl | Site::SetReusePort => Effect::Fatal,
        Site::Connect => match errno {
            libc::EINPROGRESS => Effect::Benign,
            libc::EADDRINUSE => Effect::Reissue,
            libc::ENETUNREACH if !v6 => Effect::ProbeFailed,
            _ => Effect::Fatal,
        },
        Site::SendTo => {
            let shared_raw = !matches!(sock_kind, Some(SockKind::UdpSend)) || true;
            let _ = shared_raw;
            match (proto, v6, errno) {
                (Proto::Icmp, false, libc::EHOSTUNREACH | libc::ENETUNREACH | libc::EINVAL) => Effect::ProbeFailed,
                (Proto::Udp, false, libc::EHOSTUNREACH | libc::ENETUNREACH) => Effect::ProbeFailed,
                _ => Effect::Fatal,
            }
        }
        Site::IsReadable => {
            if errno == libc::EINTR {
                Effect::Benign
            } else {
                Effect::Fatal
            }
        }
        Site::IsWritable => Effect::Benign,
        Site::Read | Site::RecvFrom => {
            if errno == libc::EAGAIN {
                Effect::Benign
            } else {
                Effect::Fatal
            }
        }
        Site::TakeError | Site::PeerAddr | Site::Shutdown => Effect::Fatal,
        Site::IfaceLookup | Site::Discover => Effect::Fatal,
    }
}

/// Effect of a failed send attempt, taking the unprivileged UDP path into account (there
/// only the bind is mapped; every other failure is fatal).
#[must_use]
pub fn attempt_effect(a: &Attempt, rec: &RunRecord) -> Effect {
    let t = &rec.sc.tracer;
    match a.outcome {
        AttemptOutcome::Failed(site, errno) => {
            if site == Site::SendTo && t.proto == Proto::Udp && t.unprivileged {
                return Effect::Fatal;
            }
            classify(site, errno, t.v6, t.proto, None, true)
        }
        _ => Effect::Benign,
    }
}

/// Is this response one a target gives (per the tracer's documented notion): echo reply or
/// TCP answer from any address, or an ICMP error whose source is the target address.
#[must_use]
pub fn is_target_response(r: &RespRec, target: IpAddr) -> bool {
    match r.kind {
        RespKind::EchoReply | RespKind::SynAck | RespKind::Rst => true,
        RespKind::TimeExceeded | RespKind::Unreachable => r.responder == target,
        RespKind::Other => false,
    }
}

/// The first genuine (or duplicate-of-genuine) response to `w` that was handed to the
/// tracer during the round in which `w` was sent.
#[must_use]
pub fn accepted_response<'a>(world: &'a World, w: &WireRec) -> Option<&'a RespRec> {
    w.responses
        .iter()
        .map(|r| &world.resps[*r])
        .filter(|r| matches!(r.class, RespClass::Genuine | RespClass::Duplicate))
        .filter(|r| r.handed.is_some_and(|h| h.round_idx == w.round_idx))
        .min_by_key(|r| r.handed.map(|h| h.call_idx))
}

/// The sequence number a wire record carries in the field its configuration prescribes.
#[must_use]
pub fn wire_sequence(rec: &RunRecord, w: &WireRec) -> Option<u16> {
    let t = &rec.sc.tracer;
    let d = w.decoded.as_ref().ok()?;
    let fixed_dest_only = matches!(t.ports, Ports::FixedDest(_));
    let fixed_src_only = matches!(t.ports, Ports::FixedSrc(_));
    let c = match t.proto {
        Proto::Tcp => {
            if fixed_src_only {
                Carrier::DestPort
            } else {
                Carrier::SrcPort
            }
        }
        _ => carrier(t.proto, t.strat, t.v6, fixed_dest_only),
    };
    Some(match c {
        Carrier::IcmpSeq => d.icmp_seq,
        Carrier::SrcPort => d.sport,
        Carrier::DestPort => d.dport,
        Carrier::UdpChecksum => d.l4_csum,
        Carrier::IpId => d.ip_id,
        Carrier::PayloadLen => {
            // magic prefix (6 octets) + (sequence - initial sequence) octets
            let payload = d.udp_len.checked_sub(8)?;
            t.initial_seq.wrapping_add(payload.checked_sub(6)?)
        }
    })
}

fn probe_fields(p: &ProbeStatus) -> Option<(u8, u16, u16, u16, usize, u64, u16)> {
    match p {
        ProbeStatus::Awaited(x) => Some((x.ttl.0, x.sequence.0, x.src_port.0, x.dest_port.0, x.round.0, crate::clock::to_ns(x.sent), x.identifier.0)),
        ProbeStatus::Complete(x) => Some((x.ttl.0, x.sequence.0, x.src_port.0, x.dest_port.0, x.round.0, crate::clock::to_ns(x.sent), x.identifier.0)),
        ProbeStatus::Failed(x) => Some((x.ttl.0, x.sequence.0, x.src_port.0, x.dest_port.0, x.round.0, crate::clock::to_ns(x.sent), x.identifier.0)),
        _ => None,
    }
}

fn status_letter(p: &ProbeStatus) -> char {
    match p {
        ProbeStatus::NotSent => 'N',
        ProbeStatus::Skipped => 'S',
        ProbeStatus::Failed(_) => 'F',
        ProbeStatus::Awaited(_) => 'A',
        ProbeStatus::Complete(_) => 'C',
    }
}

fn attempts_of_round(rec: &RunRecord, k: usize) -> &[Attempt] {
    let start = if k == 0 { 0 } else { rec.rounds[k - 1].attempts_end };
    &rec.world.attempts[start..rec.rounds[k].attempts_end]
}

/// Entry time of the first socket call after call `call_idx` that is not part of the same
/// receive operation (peer-address lookup and shutdown follow a TCP hand-over directly).
fn next_call_enter(rec: &RunRecord, call_idx: u64) -> u64 {
    rec.world.calls[(call_idx as usize).min(rec.world.calls.len())..]
        .iter()
        .find(|c| !matches!(c.site, Site::PeerAddr | Site::Shutdown))
        .map_or(rec.t_end, |c| c.t_enter)
}

fn cell_sig(rec: &RunRecord) -> String {
    let t = &rec.sc.tracer;
    format!("{:?}.{:?}.{}", t.proto, t.strat, if t.unprivileged { "unpriv" } else { "priv" })
}

/// Rounds in which a response to a probe sent at least two rounds earlier was handed over
/// while the current round had already issued the very same sequence number (the 16-bit
/// sequence space was reused in between).  Such a datagram is byte-for-byte what a genuine
/// response to the current probe looks like; no tracer can tell them apart, and the
/// properties only speak about the immediately preceding round.
#[must_use]
pub fn ambiguous_rounds(rec: &RunRecord) -> Vec<u32> {
    let w = &rec.world;
    let mut out = Vec::new();
    if rec.rounds.len() < 3 {
        return out;
    }
    for r in &w.resps {
        let (Some(h), Some(wid)) = (r.handed, r.wire_id.or(r.replay_of_wire)) else { continue };
        let sent_round = w.wires[wid].round_idx;
        if h.round_idx < sent_round + 2 {
            continue;
        }
        let Some(seq) = wire_sequence(rec, &w.wires[wid]) else { continue };
        let k = h.round_idx as usize;
        let a_start = if k == 0 { 0 } else { rec.rounds.get(k - 1).map_or(0, |x| x.attempts_end) };
        let a_end = rec.rounds.get(k).map_or(w.attempts.len(), |x| x.attempts_end);
        if w.attempts[a_start.min(a_end)..a_end]
            .iter()
            .any(|a| a.call_first < h.call_idx && attempt_sequence(rec, a) == Some(seq))
            && !out.contains(&h.round_idx)
        {
            out.push(h.round_idx);
        }
    }
    out
}

/// C01: every reported probe outcome matches what the network did.
#[must_use]
pub fn c01(rec: &RunRecord) -> Vec<Violation> {
    let mut v = Vec::new();
    let t = &rec.sc.tracer;
    let world = &rec.world;
    let ambiguous = ambiguous_rounds(rec);
    for (k, round) in rec.rounds.iter().enumerate() {
        if ambiguous.contains(&(k as u32)) {
            continue;
        }
        let attempts = attempts_of_round(rec, k);
        if attempts.len() != round.probes.len() {
            v.push(Violation::new(
                "C01",
                "c01.count",
                format!(
                    "round {k}: {} send attempts on the socket layer but {} probe entries published ({})",
                    attempts.len(),
                    round.probes.len(),
                    round.probes.iter().map(status_letter).collect::<String>()
                ),
            ));
            continue;
        }
        for (i, (a, p)) in attempts.iter().zip(&round.probes).enumerate() {
            let effect = attempt_effect(a, rec);
            let letter = status_letter(p);
            // expected status class
            let expected: &[char] = match (a.outcome, effect) {
                (AttemptOutcome::OnWire(_), _) => &['A', 'C'],
                (AttemptOutcome::Failed(..), Effect::ProbeFailed) => &['F'],
                (AttemptOutcome::Failed(..), Effect::Reissue) => &['S'],
                // a fatal failure ends the run before the round is published
                _ => &[],
            };
            if !expected.contains(&letter) {
                v.push(Violation::new(
                    "C01",
                    format!("c01.status.{}", cell_sig(rec)),
                    format!("round {k} entry {i}: attempt {:?} published as {letter}", a.outcome),
                ));
                continue;
            }
            let Some((ttl, seq, sport, dport, round_id, sent, _ident)) = probe_fields(p) else {
                continue;
            };
            if round_id != k {
                v.push(Violation::new("C01", "c01.round-id", format!("round {k} entry {i} carries round id {round_id}")));
            }
            // every clock read returns the instant and then advances it by at least 1 ns,
            // so a read made between two socket calls lies in [exit of the first, entry of the second)
            if sent < a.t_lo || sent >= a.t_hi {
                v.push(Violation::new(
                    "C01",
                    "c01.sent-time",
                    format!("round {k} entry {i}: sent={sent} outside [{}, {}]", a.t_lo, a.t_hi),
                ));
            }
            if let Some(attl) = a.ttl {
                if attl != ttl {
                    v.push(Violation::new(
                        "C01",
                        "c01.ttl",
                        format!("round {k} entry {i}: reported ttl {ttl}, on the wire {attl}"),
                    ));
                }
            }
            if t.proto != Proto::Icmp {
                if a.sport.is_some_and(|s| s != sport) || a.dport.is_some_and(|d| d != dport) {
                    v.push(Violation::new(
                        "C01",
                        "c01.ports",
                        format!("round {k} entry {i}: reported ports {sport}->{dport}, socket layer saw {:?}->{:?}", a.sport, a.dport),
                    ));
                }
            }
            let AttemptOutcome::OnWire(wid) = a.outcome else {
                continue;
            };
            let w = &world.wires[wid];
            if let Some(ws) = wire_sequence(rec, w) {
                if ws != seq {
                    v.push(Violation::new(
                        "C01",
                        format!("c01.sequence.{}", cell_sig(rec)),
                        format!("round {k} entry {i}: reported sequence {seq}, carrier field on the wire holds {ws}"),
                    ));
                }
            }
            let truth = accepted_response(world, w);
            match (p, truth) {
                (ProbeStatus::Awaited(_), None) => {}
                (ProbeStatus::Awaited(_), Some(r)) => {
                    v.push(Violation::new(
                        "C01",
                        format!("c01.missed.{}.{:?}", cell_sig(rec), r.kind),
                        format!(
                            "round {k} entry {i} (ttl {ttl} seq {seq}): a genuine {:?} from {} was handed over at call {} but the probe is reported awaited",
                            r.kind,
                            r.responder,
                            r.handed.map_or(0, |h| h.call_idx)
                        ),
                    ));
                }
                (ProbeStatus::Complete(c), None) => {
                    v.push(Violation::new(
                        "C01",
                        "c01.invented",
                        format!(
                            "round {k} entry {i} (ttl {ttl} seq {seq}): reported complete from {} but no genuine response to it was handed over in this round",
                            c.host
                        ),
                    ));
                }
                (ProbeStatus::Complete(c), Some(r)) => {
                    if c.host != r.responder {
                        v.push(Violation::new(
                            "C01",
                            "c01.responder",
                            format!("round {k} entry {i}: reported host {}, true responder {}", c.host, r.responder),
                        ));
                    }
                    let want = match r.kind {
                        RespKind::TimeExceeded => (0u8, r.code),
                        RespKind::Unreachable => (2, r.code),
                        RespKind::EchoReply => (1, 0),
                        _ => (3, 0),
                    };
                    if icmp_type_key(c.icmp_packet_type) != want {
                        v.push(Violation::new(
                            "C01",
                            "c01.kind",
                            format!("round {k} entry {i}: reported {:?}, truth {:?} code {}", c.icmp_packet_type, r.kind, r.code),
                        ));
                    }
                    let want_tos = r.quoted_tos;
                    if c.tos.map(|x| x.0) != want_tos {
                        v.push(Violation::new(
                            "C01",
                            "c01.tos",
                            format!("round {k} entry {i}: reported quoted tos {:?}, truth {:?}", c.tos, want_tos),
                        ));
                    }
                    let h = r.handed.expect("accepted response was handed over");
                    let recv = crate::clock::to_ns(c.received);
                    let hi = next_call_enter(rec, h.call_idx);
                    if recv < h.t_exit || recv >= hi {
                        v.push(Violation::new(
                            "C01",
                            "c01.recv-time",
                            format!("round {k} entry {i}: received={recv} outside [{}, {hi}]", h.t_exit),
                        ));
                    }
                }
                _ => {}
            }
        }
    }
    // per-hop totals in the final snapshot are the sums of these outcomes
    if let Some(state) = &rec.final_state {
        if let Ok(hops) = std::panic::catch_unwind(std::panic::AssertUnwindSafe(|| state.hops().to_vec())) {
            for hop in &hops {
                let ttl = hop.ttl();
                if ttl == 0 {
                    continue;
                }
                let (mut sent, mut recv, mut failed) = (0usize, 0usize, 0usize);
                for r in &rec.rounds {
                    for p in &r.probes {
                        match p {
                            ProbeStatus::Awaited(x) if x.ttl.0 == ttl => sent += 1,
                            ProbeStatus::Complete(x) if x.ttl.0 == ttl => {
                                sent += 1;
                                recv += 1;
                            }
                            ProbeStatus::Failed(x) if x.ttl.0 == ttl => {
                                sent += 1;
                                failed += 1;
                            }
                            _ => {}
                        }
                    }
                }
                if (hop.total_sent(), hop.total_recv(), hop.total_failed()) != (sent, recv, failed) {
                    v.push(Violation::new(
                        "C01",
                        "c01.totals",
                        format!(
                            "ttl {ttl}: snapshot totals sent/recv/failed = {}/{}/{} but the published rounds sum to {sent}/{recv}/{failed}",
                            hop.total_sent(),
                            hop.total_recv(),
                            hop.total_failed()
                        ),
                    ));
                }
            }
            // ... and none is dropped: every ttl with an outcome on record, up to the greatest
            // path length any round reported, has its hop in the snapshot
            if rec.sc.clear_after_round.is_none() {
                let greatest = rec.rounds.iter().map(|r| r.largest_ttl).max().unwrap_or(0);
                let mut on_record = [false; 256];
                for r in &rec.rounds {
                    for p in &r.probes {
                        if let Some(f) = probe_fields(p) {
                            on_record[usize::from(f.0)] = true;
                        }
                    }
                }
                if let Some(ttl) = (1..=greatest).find(|t| on_record[usize::from(*t)] && !hops.iter().any(|h| h.ttl() == *t)) {
                    v.push(Violation::new(
                        "C01",
                        "c01.totals.hop-dropped",
                        format!("ttl {ttl}: outcomes are on record for this ttl (path length up to {greatest}) but the snapshot has no hop for it"),
                    ));
                }
            }
        }
    }
    v
}

/// (kind, code) of a reported response type: 0 time exceeded, 1 echo reply, 2 unreachable,
/// 3 not applicable.
#[must_use]
pub fn icmp_type_key(t: IcmpPacketType) -> (u8, u8) {
    match t {
        IcmpPacketType::TimeExceeded(c) => (0, c.0),
        IcmpPacketType::EchoReply(c) => (1, c.0),
        IcmpPacketType::Unreachable(c) => (2, c.0),
        IcmpPacketType::NotApplicable => (3, 0),
    }
}

/// Target responses to round-`k` probes that were accepted in round `k`, by hand-over order.
fn accepted_in_round(rec: &RunRecord, k: usize) -> Vec<(&WireRec, &RespRec)> {
    let start = if k == 0 { 0 } else { rec.rounds[k - 1].wires_end };
    let end = rec.rounds.get(k).map_or(rec.world.wires.len(), |r| r.wires_end);
    let mut out: Vec<(&WireRec, &RespRec)> = rec.world.wires[start..end]
        .iter()
        .filter_map(|w| accepted_response(&rec.world, w).map(|r| (w, r)))
        .collect();
    out.sort_by_key(|(_, r)| r.handed.map(|h| h.call_idx));
    out
}

/// The true distance of the target on a stable single path (as observable by this tracer).
#[must_use]
pub fn stable_distance(rec: &RunRecord) -> Option<u8> {
    if !rec.sc.stable || rec.sc.net.target.behaviour != TargetBehaviour::Normal {
        return None;
    }
    let d = rec.sc.net.paths[0].routers.len() as u32 + 1;
    let d = d.max(u32::from(rec.sc.tracer.first_ttl));
    if d > u32::from(rec.sc.tracer.max_ttl) {
        return None;
    }
    Some(d as u8)
}

/// C06: probe scheduling discipline.
#[must_use]
pub fn c06(rec: &RunRecord) -> Vec<Violation> {
    let mut v = Vec::new();
    let t = &rec.sc.tracer;
    let target = t.target;
    let world = &rec.world;
    let nrounds_seen = rec.rounds.len() + 1; // the unfinished round is checked too (sends only)
    let dist = stable_distance(rec);
    let mut dist_established_at: Option<u64> = None; // call index of the deciding hand-over
    let mut any_target_accept_before: bool = false;
    for k in 0..nrounds_seen {
        let a_start = if k == 0 { 0 } else { rec.rounds[k - 1].attempts_end };
        let a_end = rec.rounds.get(k).map_or(world.attempts.len(), |r| r.attempts_end);
        let attempts = &world.attempts[a_start..a_end];
        let published = k < rec.rounds.len();
        if published && attempts.is_empty() {
            v.push(Violation::new(
                "C06",
                "c06.empty-round",
                format!("round {k} was published without sending any probe (first-ttl {} max-inflight {})", t.first_ttl, t.max_inflight),
            ));
        }
        let accepted = accepted_in_round(rec, k);
        // (a) ttl order
        let mut expect_ttl = u32::from(t.first_ttl);
        let mut prev_reissue = false;
        for a in attempts {
            let eff = attempt_effect(a, rec);
            if let Some(ttl) = a.ttl {
                let want = if prev_reissue { expect_ttl - 1 } else { expect_ttl };
                if u32::from(ttl) != want {
                    v.push(Violation::new(
                        "C06",
                        "c06.ttl-order",
                        format!("round {k}: probe sent with ttl {ttl}, expected {want} (first-ttl {})", t.first_ttl),
                    ));
                    break;
                }
                if ttl > t.max_ttl {
                    v.push(Violation::new("C06", "c06.max-ttl", format!("round {k}: ttl {ttl} above max-ttl {}", t.max_ttl)));
                }
            }
            if !prev_reissue {
                expect_ttl += 1;
            }
            prev_reissue = eff == Effect::Reissue;
            // (c) no send after the target answered in this round
            if let Some((w, r)) = accepted
                .iter()
                .find(|(_, r)| is_target_response(r, target) && r.handed.is_some_and(|h| h.call_idx < a.call_first))
            {
                v.push(Violation::new(
                    "C06",
                    "c06.send-after-target",
                    format!(
                        "round {k}: probe (ttl {:?}) sent at call {} after the target's answer to ttl {} was handed over at call {}",
                        a.ttl,
                        a.call_first,
                        w.decoded.as_ref().map_or(0, |d| d.ttl),
                        r.handed.map_or(0, |h| h.call_idx)
                    ),
                ));
                break;
            }
            // (d) in-flight window while no target distance can be known
            if !any_target_accept_before {
                let target_so_far = accepted
                    .iter()
                    .any(|(_, r)| is_target_response(r, target) && r.handed.is_some_and(|h| h.call_idx < a.call_first));
                if !target_so_far {
                    let farthest = accepted
                        .iter()
                        .filter(|(_, r)| r.handed.is_some_and(|h| h.call_idx < a.call_first))
                        .filter_map(|(w, _)| w.decoded.as_ref().ok().map(|d| u32::from(d.ttl)))
                        .max()
                        .unwrap_or(0)
                        // hops below first-ttl are never probed: the window starts there
                        .max(u32::from(t.first_ttl).saturating_sub(1));
                    if let Some(ttl) = a.ttl {
                        if u32::from(ttl) > farthest + u32::from(t.max_inflight) {
                            v.push(Violation::new(
                                "C06",
                                "c06.inflight",
                                format!("round {k}: ttl {ttl} sent while the farthest answered hop is {farthest} and max-inflight is {}", t.max_inflight),
                            ));
                        }
                    }
                }
            }
            // (e) never above the established distance on a stable path
            if let (Some(d), Some(at), Some(ttl)) = (dist, dist_established_at, a.ttl) {
                if a.call_first > at && ttl > d {
                    v.push(Violation::new(
                        "C06",
                        "c06.beyond-target",
                        format!("round {k}: ttl {ttl} sent although the target's distance {d} was established at call {at}"),
                    ));
                }
            }
        }
        // (f) first probe of every published round has first-ttl
        if published {
            if let Some(a) = attempts.first() {
                if a.ttl.is_some_and(|x| x != t.first_ttl) {
                    v.push(Violation::new("C06", "c06.first-ttl", format!("round {k} starts with ttl {:?}", a.ttl)));
                }
            }
        }
        for (w, r) in &accepted {
            if is_target_response(r, target) {
                any_target_accept_before = true;
                if let (Some(d), Ok(dec)) = (dist, w.decoded.as_ref()) {
                    if dec.ttl == d && dist_established_at.is_none() {
                        dist_established_at = r.handed.map(|h| h.call_idx);
                    }
                }
            }
        }
    }
    v
}

/// C09: termination, round count and failure semantics.
#[must_use]
pub fn c09(rec: &RunRecord) -> Vec<Violation> {
    let mut v = Vec::new();
    let t = &rec.sc.tracer;
    let world = &rec.world;
    if let Some(e) = &world.harness_error {
        v.push(Violation::new("C09", "c09.no-termination", format!("the run did not end within its call budget: {e}")));
        return v;
    }
    // first fatal fault in call order
    let fatal = world.faults.iter().find(|f| {
        let eff = if f.site == Site::SendTo && t.proto == Proto::Udp && t.unprivileged && f.running {
            Effect::Fatal
        } else {
            classify(f.site, f.errno, t.v6, t.proto, None, f.running)
        };
        eff == Effect::Fatal
    });
    // rounds are numbered 0..n-1 in order
    for (k, r) in rec.rounds.iter().enumerate() {
        for p in &r.probes {
            if let Some((_, _, _, _, rid, _, _)) = probe_fields(p) {
                if rid != k {
                    v.push(Violation::new("C09", "c09.round-number", format!("callback {k} carries probes of round {rid}")));
                }
            }
        }
    }
    match (&rec.end, fatal) {
        (RunEnd::Rejected(_), _) => {}
        (RunEnd::Panic(p), _) => {
            v.push(Violation::new("C09", format!("c09.panic.{}", panic_loc(p)), format!("the tracer panicked: {p}")));
        }
        (RunEnd::Ok, None) => {
            if rec.rounds.len() as u32 != t.rounds {
                v.push(Violation::new(
                    "C09",
                    "c09.round-count",
                    format!("round limit {} but {} rounds were published and the run returned Ok", t.rounds, rec.rounds.len()),
                ));
            }
            if let Some(s) = &rec.final_state {
                if let Some(e) = s.error() {
                    v.push(Violation::new("C09", "c09.spurious-error", format!("run returned Ok but the snapshot shows error {e:?}")));
                }
            }
        }
        (RunEnd::Ok, Some(f)) => {
            v.push(Violation::new(
                "C09",
                format!("c09.fatal-swallowed.{:?}", f.site),
                format!("fatal fault {:?} errno {} at call {} but the run returned Ok", f.site, f.errno, f.call_idx),
            ));
        }
        (RunEnd::Err(text, dbg), None) => {
            // the only error a fault-free network can cause: TCP port collisions exhausting
            // the round's sequence budget
            let capacity = text.contains("insufficient buffer capacity");
            let exhausted = {
                let k = rec.rounds.len();
                let start = if k == 0 { 0 } else { rec.rounds[k - 1].attempts_end };
                world.attempts.len() - start >= 512
            };
            if !(capacity && exhausted) {
                v.push(Violation::new(
                    "C09",
                    format!("c09.spurious-failure.{}", first_word(text)),
                    format!("no fatal fault was injected but the run ended with {text} ({dbg})"),
                ));
            }
        }
        (RunEnd::Err(text, dbg), Some(f)) => {
            // the run ends right at the failing call
            if world.call_idx != f.call_idx {
                v.push(Violation::new(
                    "C09",
                    "c09.continued-after-fatal",
                    format!("fatal fault at call {} but the tracer made {} further socket calls", f.call_idx, world.call_idx - f.call_idx),
                ));
            }
            let os = format!("os error {}", f.errno);
            let is_source_validation = !f.running && f.site == Site::Bind;
            let is_iface = f.site == Site::IfaceLookup;
            let code = format!("code: {}", f.errno);
            let addr_in_use = f.errno == libc::EADDRINUSE && dbg.contains("AddressInUse");
            if !(dbg.contains(&os) || text.contains(&os) || dbg.contains(&code) || addr_in_use) && !is_source_validation && !is_iface {
                v.push(Violation::new(
                    "C09",
                    "c09.wrong-error",
                    format!("fatal fault {:?} errno {} but the run returned {text} ({dbg})", f.site, f.errno),
                ));
            }
            match rec.final_state.as_ref().map(|s| s.error().map(str::to_string)) {
                Some(Some(e)) if &e == text => {}
                other => v.push(Violation::new(
                    "C09",
                    "c09.error-not-visible",
                    format!("run failed with {text:?} but the snapshot's error is {other:?}"),
                )),
            }
            // no callback after the failure: rounds published all precede the fault
            if let Some(last) = rec.rounds.last() {
                if last.calls_end > f.call_idx {
                    v.push(Violation::new("C09", "c09.callback-after-fatal", "a round was published after the fatal fault".to_string()));
                }
            }
        }
    }
    // transient failures and re-issues (entry-level semantics)
    for (k, round) in rec.rounds.iter().enumerate() {
        let attempts = attempts_of_round(rec, k);
        if attempts.len() != round.probes.len() {
            continue; // C01 reports the count mismatch
        }
        for (i, (a, p)) in attempts.iter().zip(&round.probes).enumerate() {
            match attempt_effect(a, rec) {
                Effect::ProbeFailed if matches!(a.outcome, AttemptOutcome::Failed(..)) => {
                    if !matches!(p, ProbeStatus::Failed(_)) {
                        v.push(Violation::new(
                            "C09",
                            "c09.transient-not-failed",
                            format!("round {k} entry {i}: transient send failure {:?} reported as {}", a.outcome, status_letter(p)),
                        ));
                    }
                }
                Effect::Reissue => {
                    if !matches!(p, ProbeStatus::Skipped) {
                        v.push(Violation::new(
                            "C09",
                            "c09.reissue-not-skipped",
                            format!("round {k} entry {i}: address-in-use attempt reported as {}", status_letter(p)),
                        ));
                    }
                    // the re-issued probe: next entry, same ttl, next sequence
                    if let (Some(next_a), Some(next_p)) = (attempts.get(i + 1), round.probes.get(i + 1)) {
                        if let (Some(t0), Some(t1)) = (a.ttl, next_a.ttl) {
                            if t0 != t1 {
                                v.push(Violation::new("C09", "c09.reissue-ttl", format!("round {k} entry {i}: re-issued with ttl {t1} instead of {t0}")));
                            }
                        }
                        let seq_of = |a: &Attempt| match (t.ports, a.sport, a.dport) {
                            (Ports::FixedSrc(_), _, Some(d)) => Some(d),
                            (Ports::FixedDest(_), Some(s), _) => Some(s),
                            _ => None,
                        };
                        if let (Some(s0), Some(s1)) = (seq_of(a), seq_of(next_a)) {
                            if s1 != s0.wrapping_add(1) {
                                v.push(Violation::new("C09", "c09.reissue-seq", format!("round {k} entry {i}: re-issued under sequence {s1} after {s0}")));
                            }
                        }
                        let _ = next_p;
                    }
                }
                _ => {}
            }
        }
    }
    v
}

#[must_use]
pub fn panic_loc(p: &str) -> String {
    // "path/to/file.rs:123: message" -> "file.rs:123"
    let loc = p.split(": ").next().unwrap_or(p);
    loc.rsplit('/').next().unwrap_or(loc).to_string()
}

fn first_word(s: &str) -> String {
    s.split(|c: char| !c.is_alphanumeric())
        .find(|w| !w.is_empty())
        .unwrap_or("err")
        .to_string()
}

/// Time of clock read `i`.
fn read_at(rec: &RunRecord, i: u64) -> Option<u64> {
    rec.clock_log.get(i as usize).copied()
}

/// C08: rounds end exactly when the timing policy says.
#[must_use]
pub fn c08(rec: &RunRecord) -> Vec<Violation> {
    let mut v = Vec::new();
    let t = &rec.sc.tracer;
    if let Some(e) = &rec.world.harness_error {
        v.push(Violation::new(
            "C08",
            "c08.held-open.never-published",
            format!("round {} was never published: the run was cut off after its call budget ({e}); max-round-duration {} ns", rec.rounds.len(), t.max_round_ns),
        ));
        return v;
    }
    let tick_max = rec.sc.faults.tick_base_ns + rec.sc.faults.tick_jitter_ns;
    for (k, round) in rec.rounds.iter().enumerate() {
        if round.reads_cb == 0 {
            continue;
        }
        let Some(now) = read_at(rec, round.reads_cb - 1) else { continue };
        let start_idx = if k == 0 { 0 } else { rec.rounds[k - 1].reads_cb };
        let Some(start) = read_at(rec, start_idx) else { continue };
        let dur = now.saturating_sub(start);
        let accepted = accepted_in_round(rec, k);
        let found = accepted.iter().any(|(_, r)| is_target_response(r, t.target));
        // receive time of the last accepted response: first clock read after its hand-over
        let last_recv = accepted
            .last()
            .and_then(|(_, r)| r.handed)
            .and_then(|h| read_at(rec, h.reads_at_exit));
        let over_max = dur > t.max_round_ns;
        let by_target = found
            && dur > t.min_round_ns
            && last_recv.is_some_and(|r| now.saturating_sub(r) > t.grace_ns);
        if !(over_max || by_target) {
            v.push(Violation::new(
                "C08",
                if found { "c08.early.found" } else { "c08.early.not-found" },
                format!(
                    "round {k} published after {dur} ns (min {} max {} grace {}; target answered: {found}; since last response: {:?} ns)",
                    t.min_round_ns,
                    t.max_round_ns,
                    t.grace_ns,
                    last_recv.map(|r| now.saturating_sub(r))
                ),
            ));
        }
        let want_reason = if found {
            CompletionReason::TargetFound
        } else {
            CompletionReason::RoundTimeLimitExceeded
        };
        if round.reason != want_reason {
            v.push(Violation::new(
                "C08",
                "c08.reason",
                format!("round {k}: reason {:?} but target answered in the round: {found}", round.reason),
            ));
        }
        // never held open longer than max + one read timeout (+ the CPU ticks of the last
        // two loop iterations, accounted exactly); only without injected stalls
        if rec.sc.faults.stall_pm == 0 {
            let reads_in_window = round.reads_cb.saturating_sub(round.readable_marks[1].min(round.reads_cb));
            let slack = reads_in_window.saturating_add(2) * tick_max;
            let bound = t.max_round_ns + t.read_timeout_ns + slack;
            if dur > bound && round.readable_marks[2] > start_idx {
                v.push(Violation::new(
                    "C08",
                    "c08.held-open",
                    format!("round {k} was open for {dur} ns, more than max {} + read timeout {} + tick slack {slack}", t.max_round_ns, t.read_timeout_ns),
                ));
            }
        }
        // the next round starts at the instant this one is published
        if let Some(next_start) = read_at(rec, round.reads_cb) {
            let gap = next_start.saturating_sub(now);
            let socket_call_between = rec
                .world
                .calls
                .get(round.calls_end as usize)
                .is_some_and(|c| c.reads_enter <= round.reads_cb);
            if socket_call_between || gap > 4 * tick_max + 1 {
                v.push(Violation::new(
                    "C08",
                    "c08.next-start",
                    format!("round {}: starts {gap} ns after round {k} was published (socket call in between: {socket_call_between})", k + 1),
                ));
            }
            // and its first probe is not sent before it started
            let attempts = if k + 1 < rec.rounds.len() || rec.world.attempts.len() > round.attempts_end {
                rec.world.attempts.get(round.attempts_end)
            } else {
                None
            };
            if let (Some(a), Some(next)) = (attempts, rec.rounds.get(k + 1)) {
                if let Some(p) = next.probes.first() {
                    if let Some((_, _, _, _, _, sent, _)) = probe_fields(p) {
                        if sent < next_start {
                            v.push(Violation::new("C08", "c08.sent-before-start", format!("round {}: first probe sent at {sent}, round started at {next_start}", k + 1)));
                        }
                    }
                }
                let _ = a;
            }
        }
    }
    v
}

/// C10: the hop table covers exactly the probed path and ends at the target.
#[must_use]
pub fn c10(rec: &RunRecord) -> Vec<Violation> {
    let mut v = Vec::new();
    let t = &rec.sc.tracer;
    let mut lowest: Option<u8> = None;
    let mut highest: u8 = 0;
    let mut probed = [false; 256];
    let dist = stable_distance(rec);
    let mut dist_reply_accepted = false;
    for (k, round) in rec.rounds.iter().enumerate() {
        for p in &round.probes {
            if let Some((ttl, ..)) = probe_fields(p) {
                lowest = Some(lowest.map_or(ttl, |l| l.min(ttl)));
                probed[ttl as usize] = true;
            }
        }
        highest = highest.max(round.largest_ttl);
        // stable path: the reported length is never below the true distance and equals it
        // once the probe with ttl = distance has been answered
        let accepted = accepted_in_round(rec, k);
        let found = accepted.iter().any(|(_, r)| is_target_response(r, t.target));
        if let Some(d) = dist {
            for (w, r) in &accepted {
                if is_target_response(r, t.target) && w.decoded.as_ref().is_ok_and(|x| x.ttl == d) {
                    dist_reply_accepted = true;
                }
            }
            if found && round.largest_ttl < d {
                v.push(Violation::new("C10", "c10.length-below-distance", format!("round {k}: path length {} below the target's true distance {d}", round.largest_ttl)));
            }
            if found && dist_reply_accepted && round.largest_ttl != d {
                v.push(Violation::new("C10", "c10.length-not-distance", format!("round {k}: path length {} but the target (distance {d}) answered the probe with that ttl", round.largest_ttl)));
            }
        }
        // quiet lossless network with long enough rounds: outside the round in which the
        // route changes, the target answers and the length is its true distance
        if rec.sc.epoch_liveness {
            let change = rec.sc.net.route_change.as_ref();
            let in_change_round = change.is_some_and(|(r, _)| *r as usize == k);
            let len = match change {
                Some((r, p)) if k >= *r as usize => p[0].routers.len(),
                _ => rec.sc.net.paths[0].routers.len(),
            } as u32
                + 1;
            let d_epoch = len.max(u32::from(t.first_ttl));
            if !in_change_round && d_epoch <= u32::from(t.max_ttl) && rec.sc.net.target.behaviour == TargetBehaviour::Normal {
                if !found {
                    v.push(Violation::new(
                        "C10",
                        "c10.stable-target-not-found",
                        format!("round {k}: the path is stable (target at distance {d_epoch}), quiet and lossless, but the target was not reached (path length {})", round.largest_ttl),
                    ));
                } else if u32::from(round.largest_ttl) != d_epoch {
                    v.push(Violation::new(
                        "C10",
                        "c10.stable-length-not-distance",
                        format!("round {k}: stable quiet path with the target at distance {d_epoch}, reported length {}", round.largest_ttl),
                    ));
                }
            }
        }
        let Some(state) = &round.snapshot else { continue };
        let res = std::panic::catch_unwind(std::panic::AssertUnwindSafe(|| {
            let mut out = Vec::new();
            let mut marks: Vec<(u8, bool, bool)> = Vec::new();
            let mut per_flow: Vec<(u64, Vec<u8>, u8)> = Vec::new();
            let mut flow_ids = vec![trippy_core::State::default_flow_id()];
            flow_ids.extend(state.flows().iter().map(|(_, id)| *id));
            for fid in flow_ids {
                let hops = state.hops_for_flow(fid);
                let th = state.target_hop(fid);
                let _ = (state.round(fid), state.round_count(fid), state.is_target(th, fid), state.is_in_round(th, fid));
                for h in hops {
                    let _ = (state.is_target(h, fid), state.is_in_round(h, fid), h.ttl(), h.addr_count());
                }
                if fid == trippy_core::State::default_flow_id() {
                    out = hops.iter().map(trippy_core::Hop::ttl).collect();
                    let th_ttl = th.ttl();
                    out.push(th_ttl);
                    marks = hops.iter().map(|h| (h.ttl(), state.is_target(h, fid), state.is_in_round(h, fid))).collect();
                } else {
                    per_flow.push((fid.0, hops.iter().map(trippy_core::Hop::ttl).collect(), th.ttl()));
                }
            }
            (out, per_flow, state.round_flow_id().0, marks)
        }));
        let Ok((mut ttls, per_flow, round_flow, marks)) = res else {
            v.push(Violation::new("C10", "c10.query-panicked", format!("round {k}: querying the hop table panicked")));
            continue;
        };
        // the hop table of every flow: a gap-free ascending run from the lowest ttl probed,
        // every entry carrying its own ttl; the target hop of the flow this round was
        // attributed to is the one at this round's path length
        if let Some(lo) = lowest {
            for (fid, fl, th) in &per_flow {
                if let Some((i, got)) = fl.iter().enumerate().find(|(i, got)| **got != 0 && **got != lo + *i as u8) {
                    v.push(Violation::new("C10", "c10.flow-hop-ttl", format!("round {k}: flow {fid}: hop at position {i} carries ttl {got}, expected {}", lo + i as u8)));
                    break;
                }
                // (only while new flows can still be registered: then this round was attributed
                // to `round_flow` for certain)
                if *fid == round_flow && state.flows().len() < rec.sc.tracer.max_flows && round.largest_ttl > 0 {
                    // the ttls this very round probed are probed hops of the flow it went to
                    let in_round: Vec<u8> = round.probes.iter().filter_map(|p| probe_fields(p).map(|f| f.0)).filter(|t| *t <= round.largest_ttl).collect();
                    if let Some(t) = in_round.iter().find(|t| fl.get(usize::from(**t - lo)).is_some_and(|got| *got != **t)) {
                        v.push(Violation::new("C10", "c10.flow-hop-missing", format!("round {k}: went to flow {fid}, whose hop for ttl {t} (probed in this round) does not carry that ttl")));
                        break;
                    }
                    if in_round.contains(&round.largest_ttl) && *th != round.largest_ttl {
                        v.push(Violation::new("C10", "c10.flow-target-hop", format!("round {k}: flow {fid}: target hop has ttl {th}, the round's path length is {}", round.largest_ttl)));
                        break;
                    }
                }
            }
        }
        // which hops count as "the target" and as "part of the latest round" follows the
        // latest round's path length alone (a round in which nothing answered has neither)
        for (ttl, is_target, in_round) in &marks {
            if *ttl == 0 {
                continue;
            }
            if *is_target != (*ttl == round.largest_ttl) || *in_round != (*ttl <= round.largest_ttl) {
                v.push(Violation::new(
                    "C10",
                    "c10.target-marks",
                    format!("round {k}: hop with ttl {ttl} is marked target={is_target} in-round={in_round}, the latest round's path length is {}", round.largest_ttl),
                ));
                break;
            }
        }
        let target_hop_ttl = ttls.pop().unwrap_or(0);
        match (lowest, highest) {
            (None, _) | (_, 0) => {
                if !ttls.is_empty() {
                    v.push(Violation::new("C10", "c10.not-empty", format!("round {k}: nothing answered but the hop list has {} entries", ttls.len())));
                }
            }
            (Some(lo), hi) => {
                let want_len = usize::from(hi).saturating_sub(usize::from(lo) - 1);
                if ttls.len() != want_len {
                    v.push(Violation::new(
                        "C10",
                        "c10.range",
                        format!("round {k}: hop list has {} entries, expected ttl {lo}..={hi}", ttls.len()),
                    ));
                } else {
                    for (i, got) in ttls.iter().enumerate() {
                        let ttl = lo + i as u8;
                        // "each probed hop carrying its own TTL": an entry that was never probed
                        // (a round cut short by the time limit reports the remembered target
                        // distance as its length) still has no ttl of its own
                        if *got != ttl && (probed[ttl as usize] || *got != 0) {
                            v.push(Violation::new("C10", "c10.hop-ttl", format!("round {k}: hop at position {i} carries ttl {got}, expected {ttl}")));
                            break;
                        }
                    }
                }
                // the designated target hop is the one at the latest round's path length
                let latest = round.largest_ttl;
                if latest > 0 && probed[latest as usize] && target_hop_ttl != latest {
                    v.push(Violation::new("C10", "c10.target-hop", format!("round {k}: target hop has ttl {target_hop_ttl}, latest path length {latest}")));
                }
            }
        }
        // nothing answers at all => length zero
        let any_accepted_ever = if rec.sc.synth.is_some() {
            // synthetic rounds have no network behind them: "answered" = a completed probe
            rec.rounds[..=k].iter().any(|r| r.probes.iter().any(|p| matches!(p, ProbeStatus::Complete(_))))
        } else {
            (0..=k).any(|j| !accepted_in_round(rec, j).is_empty())
        };
        if !any_accepted_ever && round.largest_ttl != 0 && rec.sc.clear_after_round.is_none() {
            v.push(Violation::new("C10", "c10.length-without-answer", format!("round {k}: path length {} although nothing has answered", round.largest_ttl)));
        }
        // the state was cleared right after this round: the table starts afresh
        if rec.sc.clear_after_round == Some(k as u32) && rec.world.counters.0.get("fail.query_after_clear_panicked").copied().unwrap_or(0) > 0 {
            v.push(Violation::new("C10", "c10.query-after-clear", format!("round {k}: the state was cleared after this round and querying the fresh table (hops, target hop, round count, flows) panicked")));
        }
        if rec.sc.clear_after_round == Some(k as u32) {
            lowest = None;
            highest = 0;
            probed = [false; 256];
        }
    }
    v
}

/// C11: every probe put on the wire is well-formed and as configured.
#[must_use]
pub fn c11(rec: &RunRecord) -> Vec<Violation> {
    let mut v = Vec::new();
    let t = &rec.sc.tracer;
    let world = &rec.world;
    for w in &world.wires {
        let d = match &w.decoded {
            Ok(d) => d,
            Err(e) => {
                v.push(Violation::new("C11", "c11.undecodable", format!("wire {}: {e}", w.id)));
                continue;
            }
        };
        let a = world.attempts.get(w.attempt);
        let bad = |what: &str, detail: String| Violation::new("C11", format!("c11.{what}.{}", cell_sig(rec)), format!("wire {} (ttl {}): {detail}", w.id, d.ttl));
        if d.dst != t.target {
            v.push(bad("dst", format!("addressed to {} instead of {}", d.dst, t.target)));
        }
        if d.src != t.source {
            v.push(bad("src", format!("source {} instead of {}", d.src, t.source)));
        }
        let want_transport = match t.proto {
            Proto::Icmp => Transport::Icmp,
            Proto::Udp => Transport::Udp,
            Proto::Tcp => Transport::Tcp,
        };
        if d.transport != want_transport {
            v.push(bad("protocol", format!("{:?} instead of {want_transport:?}", d.transport)));
            continue;
        }
        if d.ip_len_field != d.wire_len {
            v.push(bad("ip-length", format!("length field {} but {} octets handed to the socket", d.ip_len_field, d.wire_len)));
        }
        if !t.v6 {
            if d.tos != t.tos {
                v.push(bad("tos", format!("tos {} instead of {}", d.tos, t.tos)));
            }
            if !d.df {
                v.push(bad("df", "don't-fragment not set".to_string()));
            }
        }
        if !d.l4_csum_ok {
            v.push(bad("checksum", format!("transport checksum {:#06x} does not verify", d.l4_csum)));
        }
        // ttl of the probe: the published entry for this wire record
        let round = rec.rounds.get(w.round_idx as usize);
        let entry = round.and_then(|r| {
            let start = if w.round_idx == 0 { 0 } else { rec.rounds[w.round_idx as usize - 1].attempts_end };
            r.probes.get(w.attempt.checked_sub(start)?)
        });
        if let Some(p) = entry {
            if let Some((ttl, seq, sport, dport, _, _, ident)) = probe_fields(p) {
                if d.ttl != ttl {
                    v.push(bad("ttl", format!("ttl/hop-limit {} but the probe is reported with ttl {ttl}", d.ttl)));
                }
                if let Some(ws) = wire_sequence(rec, w) {
                    if ws != seq {
                        v.push(bad("sequence", format!("carrier field holds {ws}, probe sequence is {seq}")));
                    }
                }
                if t.proto == Proto::Icmp && d.icmp_id != t.trace_id {
                    v.push(bad("identifier", format!("icmp identifier {} instead of trace id {}", d.icmp_id, t.trace_id)));
                }
                if t.proto != Proto::Icmp && (d.sport != sport || d.dport != dport) {
                    v.push(bad("ports", format!("ports {}->{} but the probe is reported with {sport}->{dport}", d.sport, d.dport)));
                }
                let _ = ident;
            }
        }
        match t.proto {
            Proto::Icmp => {
                let want_type = if t.v6 { 128 } else { 8 };
                if d.icmp_type != want_type || d.icmp_code != 0 {
                    v.push(bad("icmp-type", format!("type {} code {}", d.icmp_type, d.icmp_code)));
                }
            }
            Proto::Udp => {
                if usize::from(d.udp_len) != d.wire_len - d.l4_off {
                    v.push(bad("udp-length", format!("udp length {} but segment has {} octets", d.udp_len, d.wire_len - d.l4_off)));
                }
            }
            Proto::Tcp => {}
        }
        // size and payload: ICMP and classic / Dublin-IPv4 UDP
        let payload = &w.bytes[d.payload_off.min(w.bytes.len())..];
        let sized = match (t.proto, t.strat) {
            (Proto::Icmp, _) => true,
            (Proto::Udp, Strat::Classic) => true,
            (Proto::Udp, Strat::Dublin) => !t.v6,
            _ => false,
        };
        if sized {
            if d.wire_len != usize::from(t.packet_size) {
                v.push(bad("size", format!("datagram has {} octets, configured packet size {}", d.wire_len, t.packet_size)));
            }
            if payload.iter().any(|b| *b != t.pattern) {
                v.push(bad("payload", format!("payload is not the pattern {:#04x}", t.pattern)));
            }
        }
        if t.proto == Proto::Udp && t.strat == Strat::Dublin && t.v6 {
            if !payload.starts_with(b"trippy") {
                v.push(bad("magic", "Dublin/IPv6 payload does not start with the magic prefix".to_string()));
            }
        }
        let _ = a;
    }
    v
}


fn relabel(v: Vec<Violation>, prop: &'static str, from: &str, to: &str) -> Vec<Violation> {
    v.into_iter()
        .map(|x| Violation {
            prop,
            sig: x.sig.replacen(from, to, 1),
            detail: x.detail,
        })
        .collect()
}

/// The sequence number an attempt used (also for attempts that never reached the wire).
#[must_use]
pub fn attempt_sequence(rec: &RunRecord, a: &Attempt) -> Option<u16> {
    let t = &rec.sc.tracer;
    if let AttemptOutcome::OnWire(w) = a.outcome {
        return wire_sequence(rec, &rec.world.wires[w]);
    }
    if t.proto == Proto::Tcp || (t.proto == Proto::Udp && t.strat == Strat::Classic) {
        return match t.ports {
            Ports::FixedSrc(_) => a.dport,
            Ports::FixedDest(_) => a.sport,
            _ => None,
        };
    }
    let d = a.decoded.as_ref()?;
    match carrier(t.proto, t.strat, t.v6, matches!(t.ports, Ports::FixedDest(_))) {
        Carrier::IcmpSeq => Some(d.icmp_seq),
        Carrier::SrcPort => Some(d.sport),
        Carrier::DestPort => Some(d.dport),
        Carrier::UdpChecksum => Some(d.l4_csum),
        Carrier::IpId => Some(d.ip_id),
        Carrier::PayloadLen => Some(t.initial_seq.wrapping_add(d.udp_len.checked_sub(14)?)),
    }
}

/// Was a forged "never sent" response made indistinguishable from a genuine one because
/// the tracer did issue that sequence in the round before the forgery was handed over?
fn forged_became_genuine(rec: &RunRecord) -> bool {
    let w = &rec.world;
    w.forged_seqs.iter().any(|(rid, seq)| {
        let Some(h) = w.resps[*rid].handed else { return false };
        w.attempts
            .iter()
            .filter(|a| a.round_idx == h.round_idx && a.call_first < h.call_idx)
            .any(|a| attempt_sequence(rec, a) == Some(*seq))
    })
}

/// Reference model of the round bookkeeping, fed with genuine accepted responses only.
fn bookkeeping(rec: &RunRecord, prop: &'static str, prefix: &str) -> Vec<Violation> {
    let mut v = Vec::new();
    let t = &rec.sc.tracer;
    let mut target_ttl: Option<u8> = None;
    for (k, round) in rec.rounds.iter().enumerate() {
        let mut max_recv: Option<u8> = None;
        let mut found = false;
        for (w, r) in accepted_in_round(rec, k) {
            let Ok(d) = w.decoded.as_ref() else { continue };
            let ttl = d.ttl;
            let is_target = is_target_response(r, t.target);
            target_ttl = if is_target {
                match target_ttl {
                    None => Some(ttl),
                    Some(x) if ttl < x => Some(ttl),
                    Some(x) => Some(x),
                }
            } else {
                match target_ttl {
                    Some(x) if ttl >= x => None,
                    other => other,
                }
            };
            max_recv = Some(max_recv.map_or(ttl, |m| m.max(ttl)));
            found |= is_target;
        }
        // ttl of the last probe of the round (re-issues keep their ttl)
        let attempts = attempts_of_round(rec, k);
        let mut next_ttl = u32::from(t.first_ttl);
        let mut prev_reissue = false;
        for a in attempts {
            if !prev_reissue {
                next_ttl += 1;
            }
            prev_reissue = attempt_effect(a, rec) == Effect::Reissue;
        }
        let max_sent = next_ttl.saturating_sub(1).min(255) as u8;
        let want_largest = match target_ttl {
            Some(x) => x,
            None => max_recv.map_or(0, |m| max_sent.min(m.saturating_add(1))),
        };
        if round.largest_ttl != want_largest {
            v.push(Violation::new(
                prop,
                format!("{prefix}.bookkeeping.largest-ttl"),
                format!(
                    "round {k}: published path length {} but the genuine responses of the trace so far give {want_largest} (target distance {target_ttl:?}, farthest answer {max_recv:?}, last ttl sent {max_sent})",
                    round.largest_ttl
                ),
            ));
            // the tracer's own state has diverged from the model: later rounds would only repeat it
            break;
        }
        let want_reason = if found {
            CompletionReason::TargetFound
        } else {
            CompletionReason::RoundTimeLimitExceeded
        };
        if round.reason != want_reason {
            v.push(Violation::new(
                prop,
                format!("{prefix}.bookkeeping.reason"),
                format!("round {k}: reason {:?} but a genuine target response was accepted in the round: {found}", round.reason),
            ));
        }
    }
    v
}

/// Completions that have no genuine current-round response behind them, attributed to the
/// datagram that caused them (the signature names the kind of datagram that was accepted).
fn attribute_acceptances(rec: &RunRecord, prop: &'static str, prefix: &str) -> Vec<Violation> {
    let mut v = Vec::new();
    let world = &rec.world;
    let proto = rec.sc.tracer.proto;
    for (k, round) in rec.rounds.iter().enumerate() {
        let attempts = attempts_of_round(rec, k);
        if attempts.len() != round.probes.len() {
            continue;
        }
        for (i, (a, p)) in attempts.iter().zip(&round.probes).enumerate() {
            let ProbeStatus::Complete(c) = p else { continue };
            let AttemptOutcome::OnWire(wid) = a.outcome else { continue };
            let truth = accepted_response(world, &world.wires[wid]);
            let recv = crate::clock::to_ns(c.received);
            let consistent = truth.is_some_and(|r| {
                r.responder == c.host && r.handed.is_some_and(|h| recv >= h.t_exit && recv < next_call_enter(rec, h.call_idx))
            });
            if consistent {
                continue;
            }
            // which handed-over datagram did the tracer take this from?
            let culprit = world.resps.iter().find(|r| {
                r.handed.is_some_and(|h| h.round_idx as usize == k && recv >= h.t_exit && recv < next_call_enter(rec, h.call_idx))
                    && r.responder == c.host
            });
            if let Some(r) = culprit {
                let genuine_current = matches!(r.class, RespClass::Genuine | RespClass::Duplicate)
                    && r.wire_id.is_some_and(|w| world.wires[w].round_idx as usize == k);
                if genuine_current {
                    continue; // a genuine response completing the wrong probe: left to the main oracle
                }
                let what = match r.class {
                    RespClass::Genuine | RespClass::Duplicate => "late-genuine".to_string(),
                    RespClass::Replay => "replay-prev-round".to_string(),
                    _ => r.note.to_string(),
                };
                v.push(Violation::new(
                    prop,
                    format!("{prefix}.accepted.{what}.{proto:?}"),
                    format!(
                        "round {k} entry {i} (ttl {} seq {}): completed by a {:?} datagram ({}) from {} handed over at call {}; no genuine response to this probe was handed over in this round",
                        c.ttl.0,
                        c.sequence.0,
                        r.class,
                        r.note,
                        r.responder,
                        r.handed.map_or(0, |h| h.call_idx)
                    ),
                ));
            }
        }
    }
    v
}

/// C03, progress bookkeeping: responses that must be ignored (duplicates, replays, foreign,
/// never-sent, unrelated) do not postpone the end of a round.  The loop evaluates the
/// completion condition once per iteration, after its receive phase; the condition is
/// monotone in time while no genuine response arrives.  If it already held - computed from
/// the genuine accepted responses only - when the last receive call of an iteration was
/// ENTERED (a lower bound of the evaluation instant), the round had to be published in that
/// iteration.  A later publication with an ignorable response handed over in between is
/// reported.  ICMP and UDP only (one readiness poll per iteration marks the iterations).
fn ignored_response_delays_round(rec: &RunRecord) -> Vec<Violation> {
    let mut v = Vec::new();
    let t = &rec.sc.tracer;
    if t.proto == Proto::Tcp || rec.sc.faults.stall_pm > 0 || rec.clock_log.is_empty() {
        return v;
    }
    let calls = &rec.world.calls;
    for (k, round) in rec.rounds.iter().enumerate() {
        let c0 = if k == 0 { 0 } else { rec.rounds[k - 1].calls_end as usize };
        let c1 = (round.calls_end as usize).min(calls.len());
        let start_idx = if k == 0 { 0 } else { rec.rounds[k - 1].reads_cb };
        let Some(start) = read_at(rec, start_idx) else { continue };
        let accepted = accepted_in_round(rec, k);
        let polls: Vec<usize> = (c0..c1).filter(|j| calls[*j].site == Site::IsReadable).collect();
        for (n, j) in polls.iter().enumerate() {
            let Some(next_poll) = polls.get(n + 1) else { break };
            // last call of this iteration's receive phase (`call_idx` of a hand-over is
            // 1-based: the response handed over in call `last` has call_idx `last + 1` and, being
            // received after `now_lower`, keeps the condition false when it is genuine)
            let last = if calls.get(j + 1).is_some_and(|c| matches!(c.site, Site::Read | Site::RecvFrom)) && j + 1 < *next_poll { j + 1 } else { *j };
            let now_lower = calls[last].t_enter;
            let before: Vec<&(&WireRec, &RespRec)> = accepted.iter().filter(|(_, r)| r.handed.is_some_and(|h| (h.call_idx as usize) <= last + 1)).collect();
            let found = before.iter().any(|(_, r)| is_target_response(r, t.target));
            let last_recv = before.iter().filter_map(|(_, r)| r.handed.and_then(|h| read_at(rec, h.reads_at_exit))).max();
            let Some(last_recv) = last_recv else { continue };
            let held = found && now_lower.saturating_sub(start) > t.min_round_ns && now_lower > last_recv && now_lower - last_recv > t.grace_ns;
            if !held {
                continue;
            }
            // the round went on: which ignorable datagram was handed over after this point?
            let culprit = rec.world.resps.iter().find(|r| {
                !matches!(r.class, RespClass::Genuine) && r.handed.is_some_and(|h| h.round_idx as usize == k && (h.call_idx as usize) > last + 1)
            });
            if let Some(r) = culprit {
                v.push(Violation::new(
                    "C03",
                    format!("c03.ignored-response-delayed-round.{:?}", r.class),
                    format!(
                        "round {k}: the target had answered, min-round and grace ({} ns) had passed since the last genuine response by call {} (t+{} ns), yet the round went on; a {:?} datagram ({}) was handed over at call {}",
                        t.grace_ns,
                        last + 1,
                        now_lower.saturating_sub(start),
                        r.class,
                        r.note,
                        r.handed.map_or(0, |h| h.call_idx)
                    ),
                ));
            }
            break;
        }
    }
    v
}

/// C03: only genuine current-round responses can complete a probe.
#[must_use]
pub fn c03(rec: &RunRecord) -> Vec<Violation> {
    if forged_became_genuine(rec) || !ambiguous_rounds(rec).is_empty() {
        return Vec::new();
    }
    let attributed = attribute_acceptances(rec, "C03", "c03");
    if !attributed.is_empty() {
        return attributed;
    }
    let mut v = relabel(c01(rec), "C03", "c01.", "c03.");
    v.extend(bookkeeping(rec, "C03", "c03"));
    v.extend(ignored_response_delays_round(rec));
    v.extend(
        relabel(c06(rec), "C03", "c06.", "c03.send.")
            .into_iter()
            .filter(|x| !x.sig.starts_with("c03.send.empty-round")),
    );
    if let RunEnd::Panic(p) = &rec.end {
        v.push(Violation::new("C03", format!("c03.panic.{}", panic_loc(p)), format!("the tracer panicked: {p}")));
    }
    v
}

/// Reach probes of the oracles themselves (how often a conditional comparison was actually
/// made); summed over all worker threads, reported in the evidence.
pub static ORACLE_REACH: std::sync::Mutex<std::collections::BTreeMap<&'static str, u64>> = std::sync::Mutex::new(std::collections::BTreeMap::new());

fn oracle_reach(name: &'static str, n: u64) {
    if let Ok(mut m) = ORACLE_REACH.lock() {
        *m.entry(name).or_insert(0) += n;
    }
}

/// C03 with a second real tracer on the host: nothing of the neighbour's traffic completes
/// a probe, and - on a quiet lossless network with long rounds - every round reports, hop
/// by hop up to its path length, what the same run reports without the neighbour.
#[must_use]
pub fn c03_neighbour(rec: &RunRecord) -> Vec<Violation> {
    let mut v = c03(rec);
    if !rec.sc.alone_equal || rec.sc.neighbour.is_none() || !v.is_empty() || !matches!(rec.end, RunEnd::Ok) {
        return v;
    }
    let mut alone_sc = rec.sc.clone();
    alone_sc.neighbour = None;
    let tape = simcore::Tape::from_values(rec.tape_record[rec.world_tape_start.min(rec.tape_record.len())..].to_vec());
    let alone = crate::run::run_scenario(alone_sc, tape, crate::run::RunOpts { snapshots: false, clock_log: false });
    if !matches!(alone.end, RunEnd::Ok) || alone.rounds.len() != rec.rounds.len() {
        v.push(Violation::new(
            "C03",
            "c03.not-as-alone.rounds",
            format!("with the neighbouring tracer {} rounds were published ({:?}), alone {} ({:?})", rec.rounds.len(), rec.end, alone.rounds.len(), alone.end),
        ));
        return v;
    }
    let view = |r: &crate::run::RoundRec| -> Vec<(u8, Option<IpAddr>)> {
        let mut out: Vec<(u8, Option<IpAddr>)> = Vec::new();
        for p in &r.probes {
            match p {
                ProbeStatus::Complete(c) if c.ttl.0 <= r.largest_ttl => out.push((c.ttl.0, Some(c.host))),
                ProbeStatus::Awaited(a) if a.ttl.0 <= r.largest_ttl => out.push((a.ttl.0, None)),
                _ => {}
            }
        }
        out
    };
    let mut compared = 0u64;
    for (k, (a, b)) in rec.rounds.iter().zip(&alone.rounds).enumerate() {
        // a round cut off by the time limit got as far as the loop's timing allowed, which
        // the extra wake-ups change; only rounds that reached the target are comparable
        if a.reason != CompletionReason::TargetFound || b.reason != CompletionReason::TargetFound {
            continue;
        }
        // ... and in which every hop up to the target had answered when the round ended (the
        // target's replies to probes beyond its distance may end a round before the reply to
        // the probe at its distance is read; which of them is read first is timing again)
        if view(a).iter().any(|(_, h)| h.is_none()) || view(b).iter().any(|(_, h)| h.is_none()) {
            continue;
        }
        compared += 1;
        if a.largest_ttl != b.largest_ttl || view(a) != view(b) {
            v.push(Violation::new(
                "C03",
                "c03.not-as-alone",
                format!(
                    "round {k}: with the neighbouring tracer the path is {:?} (length {}), alone it is {:?} (length {})",
                    view(a),
                    a.largest_ttl,
                    view(b),
                    b.largest_ttl
                ),
            ));
            break;
        }
    }
    oracle_reach("c03.rounds_compared_with_the_run_alone", compared);
    oracle_reach("c03.runs_repeated_alone", 1);
    v
}

/// C02: a probe's identity survives encode -> quote -> decode -> match; foreign quotations
/// are never accepted.
#[must_use]
pub fn c02(rec: &RunRecord) -> Vec<Violation> {
    let mut v = c02_inner(rec);
    // Unprivileged Paris/Dublin (accepted by the builder, rejected by the command line): the
    // sequence never reaches the wire, the field the tracer reads back holds whatever the
    // kernel put there, so any match is accidental.  Those consequences of the one defect
    // carry the cell in their signature (the known-findings file lists them per cell).
    let t = &rec.sc.tracer;
    if t.unprivileged && t.proto == Proto::Udp && t.strat != Strat::Classic {
        let cell = cell_sig(rec);
        for x in &mut v {
            let accidental = ["c02.responder", "c02.invented", "c02.status", "c02.count", "c02.accepted"].iter().any(|p| x.sig.starts_with(p));
            if accidental && !x.sig.contains(&cell) {
                x.sig = format!("c02.accidental-match.{cell}.{}", &x.sig[4..]);
            } else if accidental {
                x.sig = format!("c02.accidental-match.{cell}.{}", x.sig[4..].replace(&format!(".{cell}"), ""));
            }
        }
    }
    v
}

fn c02_inner(rec: &RunRecord) -> Vec<Violation> {
    // a response at least two rounds old whose 16-bit sequence the current round has issued
    // again is byte for byte a response to the current probe (see `ambiguous_rounds`)
    if !ambiguous_rounds(rec).is_empty() {
        return Vec::new();
    }
    let attributed = attribute_acceptances(rec, "C02", "c02");
    if !attributed.is_empty() {
        return attributed;
    }
    let mut v = relabel(c01(rec), "C02", "c01.", "c02.");
    v.retain(|x| {
        x.sig.starts_with("c02.missed")
            || x.sig.starts_with("c02.invented")
            || x.sig.starts_with("c02.sequence")
            || x.sig.starts_with("c02.responder")
            || x.sig.starts_with("c02.status")
            || x.sig.starts_with("c02.count")
    });
    // which foreign kind was accepted, if any: tag the signature for triage
    if let RunEnd::Panic(p) = &rec.end {
        v.push(Violation::new("C02", format!("c02.panic.{}", panic_loc(p)), format!("the tracer panicked: {p}")));
    }
    if let RunEnd::Err(text, _) = &rec.end {
        if rec.world.faults.is_empty() {
            v.push(Violation::new("C02", format!("c02.error.{}", first_word(text)), format!("the trace ended with {text} although every response was standards-conforming")));
        }
    }
    v
}

/// C07: sequence numbers stay unique, in range and inside the round buffer.
#[must_use]
pub fn c07(rec: &RunRecord) -> Vec<Violation> {
    let mut v = Vec::new();
    let t = &rec.sc.tracer;
    let world = &rec.world;
    let nrounds = rec.rounds.len() + 1;
    let mut prev: Option<(u16, usize)> = None; // (first sequence, count) of the previous round
    for k in 0..nrounds {
        let a_start = if k == 0 { 0 } else { rec.rounds[k - 1].attempts_end };
        let a_end = rec.rounds.get(k).map_or(world.attempts.len(), |r| r.attempts_end);
        let attempts = &world.attempts[a_start..a_end];
        if attempts.len() > 512 {
            v.push(Violation::new("C07", "c07.round-size", format!("round {k} used {} sequence numbers", attempts.len())));
        }
        // first sequence of the round, derived from the first attempt whose sequence is known
        let mut first: Option<u16> = None;
        for (i, a) in attempts.iter().enumerate() {
            let Some(s) = attempt_sequence(rec, a) else { continue };
            if s == u16::MAX {
                v.push(Violation::new("C07", "c07.reached-max", format!("round {k}: sequence 65535 was issued")));
            }
            match first {
                None => {
                    if u32::from(s) >= i as u32 {
                        first = Some(s - i as u16);
                    } else {
                        v.push(Violation::new("C07", "c07.not-consecutive", format!("round {k}: attempt {i} uses sequence {s}")));
                        break;
                    }
                }
                Some(f) => {
                    if u32::from(f) + i as u32 != u32::from(s) {
                        v.push(Violation::new(
                            "C07",
                            "c07.not-consecutive",
                            format!("round {k}: attempt {i} uses sequence {s}, expected {} (round starts at {f})", u32::from(f) + i as u32),
                        ));
                        break;
                    }
                }
            }
            // Dublin/IPv6: payload length derived from the sequence fits the datagram
            if t.proto == Proto::Udp && t.strat == Strat::Dublin && t.v6 {
                if let AttemptOutcome::OnWire(w) = a.outcome {
                    let w = &world.wires[w];
                    if w.bytes.len() > 1024 {
                        v.push(Violation::new("C07", "c07.dublin-payload", format!("round {k}: datagram of {} octets", w.bytes.len())));
                    }
                }
            }
        }
        if let (Some(f), Some((pf, pn))) = (first, prev) {
            let prev_end = u32::from(pf) + pn as u32; // one past the last sequence of the previous round
            if u32::from(f) != prev_end && f != t.initial_seq {
                v.push(Violation::new(
                    "C07",
                    "c07.round-start",
                    format!("round {k} starts at sequence {f}: neither the previous end {prev_end} nor the initial sequence {}", t.initial_seq),
                ));
            }
            // a sequence of the immediately preceding round is never issued again
            let cur_end = u32::from(f) + attempts.len() as u32;
            let overlap = u32::from(f) < prev_end && u32::from(pf) < cur_end;
            if overlap {
                // the restart was due (the preceding round had run past the regime's limit):
                // the open finding; a restart before the limit is something else
                let limit = if t.proto == Proto::Udp && t.strat == Strat::Dublin && t.v6 { u32::from(t.initial_seq) + 512 } else { 65_023 };
                // an initial sequence above the documented maximum (64511) leaves no room for a
                // round before the restart: it must not get past the builder in the first place
                let sig = if t.initial_seq > 64_511 {
                    "c07.overlap.initial-sequence-above-limit".to_string()
                } else if prev_end >= limit {
                    "c07.wrap-overlap".to_string()
                } else {
                    format!("c07.early-restart-overlap.{:?}", t.proto)
                };
                // everything else that goes wrong in such a run is a consequence
                return vec![Violation::new(
                    "C07",
                    sig,
                    format!(
                        "round {k} issues sequences {f}..{cur_end} although the preceding round used {pf}..{prev_end}: a late response to the preceding round is valid in this one",
                    ),
                )];
            }
        }
        if let Some(f) = first {
            prev = Some((f, attempts.len()));
        } else if !attempts.is_empty() {
            prev = None;
        }
    }
    // a published round that used up its 512 numbers and still had probes to send: on a
    // silent network with the window wide open the tracer goes on to max-ttl, so the next
    // probe was due and the trace had to end with the capacity error instead
    if t.proto == Proto::Tcp && t.first_ttl == 1 && usize::from(t.max_inflight) >= usize::from(t.max_ttl) && rec.sc.synth.is_none() {
        for k in 0..rec.rounds.len() {
            let attempts = attempts_of_round(rec, k);
            let silent = !world.resps.iter().any(|r| r.handed.is_some_and(|h| h.round_idx as usize == k));
            let sent = attempts.iter().filter(|a| matches!(a.outcome, AttemptOutcome::OnWire(_))).count();
            let only_collisions = attempts.iter().all(|a| match a.outcome {
                AttemptOutcome::OnWire(_) => true,
                AttemptOutcome::Failed(site, errno) => site == Site::Bind && errno == libc::EADDRINUSE,
                AttemptOutcome::Open => false,
            });
            if attempts.len() >= 512 && silent && only_collisions && sent < usize::from(t.max_ttl) && rec.rounds[k].reason == CompletionReason::RoundTimeLimitExceeded {
                v.push(Violation::new(
                    "C07",
                    "c07.capacity-not-reported",
                    format!("round {k} used {} sequence numbers for {sent} probes (max-ttl {}) on a silent network and was published: the next probe was due, the trace had to end with the capacity error", attempts.len(), t.max_ttl),
                ));
            }
        }
    }
    match &rec.end {
        RunEnd::Panic(p) => v.push(Violation::new("C07", format!("c07.panic.{}", panic_loc(p)), format!("the tracer panicked: {p}"))),
        RunEnd::Err(text, _) if text.contains("insufficient buffer capacity") => {
            // legitimate only when the round's budget really was exhausted
            let k = rec.rounds.len();
            let start = if k == 0 { 0 } else { rec.rounds[k - 1].attempts_end };
            if world.attempts.len() - start < 512 {
                v.push(Violation::new("C07", "c07.spurious-capacity-error", format!("capacity error after only {} sequence numbers in the round", world.attempts.len() - start)));
            }
        }
        _ => {}
    }
    // operational half: previous-round responses re-delivered in the next round never
    // complete a probe (C01's oracle: such a completion has no genuine response behind it)
    v.extend(
        relabel(c01(rec), "C07", "c01.", "c07.late.")
            .into_iter()
            .filter(|x| x.sig.starts_with("c07.late.invented") || x.sig.starts_with("c07.late.count")),
    );
    v
}

/// C05: per-hop statistics equal an independent re-aggregation of the rounds.
#[must_use]
pub fn c05(rec: &RunRecord) -> Vec<Violation> {
    use crate::refagg::{compare_hop, RefFlow};
    let mut v = Vec::new();
    let mut reference = RefFlow::default();
    let max_samples = rec.sc.tracer.max_samples;
    for (k, round) in rec.rounds.iter().enumerate() {
        reference.apply(round);
        let Some(state) = &round.snapshot else { continue };
        let Ok(hops) = std::panic::catch_unwind(std::panic::AssertUnwindSafe(|| state.hops().to_vec())) else {
            v.push(Violation::new("C05", "c05.query-panicked", format!("round {k}: hops() panicked")));
            continue;
        };
        let Some(lowest) = reference.lowest else { continue };
        for (i, hop) in hops.iter().enumerate() {
            let ttl = usize::from(lowest) + i;
            if ttl > 255 {
                break;
            }
            for (field, detail) in compare_hop(hop, &reference.hops[ttl], max_samples) {
                v.push(Violation::new("C05", format!("c05.{field}"), format!("after round {k}, ttl {ttl}: {detail}")));
            }
        }
        // the history never exceeds the configured sample limit - in the table of any flow
        let over = std::panic::catch_unwind(std::panic::AssertUnwindSafe(|| {
            state
                .flows()
                .iter()
                .flat_map(|(_, id)| state.hops_for_flow(*id).iter().map(move |h| (id.0, h.ttl(), h.samples().len())))
                .find(|(_, _, n)| *n > max_samples)
        }));
        if let Ok(Some((flow, ttl, n))) = over {
            v.push(Violation::new("C05", "c05.law.flow-samples-bounded", format!("after round {k}, flow {flow} ttl {ttl}: history of {n} samples, the sample limit is {max_samples}")));
        }
        if v.len() > 8 {
            break;
        }
        if rec.sc.clear_after_round == Some(k as u32) {
            // the state was cleared after this round was published: what follows is
            // aggregated afresh, under the same limits
            reference = RefFlow::default();
        }
    }
    if let RunEnd::Panic(p) = &rec.end {
        if p.contains("state.rs") {
            v.push(Violation::new("C05", format!("c05.panic.{}", panic_loc(p)), format!("the aggregator panicked: {p}")));
        }
    }
    v
}

/// The hop addresses of a round by position (ttl offset from first-ttl), `None` = no answer.
fn round_addresses(round: &crate::run::RoundRec, first_ttl: u8) -> Option<Vec<Option<IpAddr>>> {
    let mut out: Vec<Option<IpAddr>> = Vec::new();
    for p in &round.probes {
        match p {
            ProbeStatus::Awaited(a) => {
                let pos = usize::from(a.ttl.0.checked_sub(first_ttl)?);
                if out.len() <= pos {
                    out.resize(pos + 1, None);
                }
            }
            ProbeStatus::Complete(c) => {
                let pos = usize::from(c.ttl.0.checked_sub(first_ttl)?);
                if out.len() <= pos {
                    out.resize(pos + 1, None);
                }
                out[pos] = Some(c.host);
            }
            // a failed probe shifts the implementation's positions: such rounds are held to
            // the remaining clauses only; a skipped slot (abandoned TCP attempt) is followed by
            // the re-issued probe with the same ttl and takes no position
            ProbeStatus::Failed(_) => return None,
            ProbeStatus::Skipped => {}
            ProbeStatus::NotSent => {}
        }
    }
    Some(out)
}

/// C15: flow identifiers are stable, consistent and bounded.
#[must_use]
pub fn c15(rec: &RunRecord) -> Vec<Violation> {
    use crate::refagg::{compare_hop, RefFlow};
    use trippy_core::{FlowEntry, FlowId, State};
    let mut v = Vec::new();
    let t = &rec.sc.tracer;
    let mut prev_flows: Vec<(u64, Vec<FlowEntry>)> = Vec::new();
    let mut refs: std::collections::BTreeMap<u64, RefFlow> = std::collections::BTreeMap::new();
    let mut default_ref = RefFlow::default();
    // rounds published since the state was last cleared
    let mut since_clear = 0usize;
    let mut target_answered = false;
    for (k, round) in rec.rounds.iter().enumerate() {
        if k > 0 && rec.sc.clear_after_round == Some(k as u32 - 1) {
            // cleared after the previous round: identifiers, flows and counts start afresh
            prev_flows.clear();
            refs.clear();
            default_ref = RefFlow::default();
            since_clear = 0;
        }
        since_clear += 1;
        default_ref.apply(round);
        let Some(state) = &round.snapshot else { continue };
        let flows: Vec<(u64, Vec<FlowEntry>)> = state.flows().iter().map(|(f, id)| (id.0, f.entries.clone())).collect();
        // dense ids from 1, bounded
        for (i, (id, _)) in flows.iter().enumerate() {
            if *id != i as u64 + 1 {
                v.push(Violation::new("C15", "c15.ids-not-dense", format!("round {k}: flow at position {i} has id {id}")));
            }
        }
        if flows.len() > t.max_flows {
            v.push(Violation::new("C15", "c15.too-many-flows", format!("round {k}: {} flows, max-flows {}", flows.len(), t.max_flows)));
        }
        // a flow only ever gains knowledge
        for (id, old) in &prev_flows {
            let Some((_, new)) = flows.iter().find(|(i, _)| i == id) else {
                v.push(Violation::new("C15", "c15.flow-vanished", format!("round {k}: flow {id} no longer exists")));
                continue;
            };
            if new.len() < old.len() {
                v.push(Violation::new("C15", "c15.flow-forgot", format!("round {k}: flow {id} shrank from {} to {} entries", old.len(), new.len())));
            }
            for (pos, (o, n)) in old.iter().zip(new.iter()).enumerate() {
                if let FlowEntry::Known(a) = o {
                    if n != &FlowEntry::Known(*a) {
                        v.push(Violation::new("C15", "c15.flow-contradicts", format!("round {k}: flow {id} position {pos} changed from {o} to {n}")));
                    }
                }
            }
        }
        // default flow aggregates every round
        if state.round_count(State::default_flow_id()) != since_clear {
            v.push(Violation::new("C15", "c15.default-flow-rounds", format!("round {k}: default flow counts {} rounds", state.round_count(State::default_flow_id()))));
        }
        // attribution of this round
        let rf = state.round_flow_id().0;
        let at_limit_before = prev_flows.len() >= t.max_flows;
        let addrs = round_addresses(round, t.first_ttl);
        let consistent_with = |entries: &[FlowEntry], addrs: &[Option<IpAddr>]| -> bool {
            addrs.iter().zip(entries.iter()).all(|(a, e)| match (a, e) {
                (Some(x), FlowEntry::Known(y)) => x == y,
                _ => true,
            })
        };
        let mut attributed: Option<u64> = None;
        if !at_limit_before {
            if rf == 0 || !flows.iter().any(|(id, _)| *id == rf) {
                v.push(Violation::new("C15", "c15.no-attribution", format!("round {k}: attributed to flow {rf}, which is not a registered flow")));
            } else {
                attributed = Some(rf);
            }
        } else if let Some(a) = &addrs {
            // at the limit: a round matching an existing flow is still attributed to one
            let seen: Vec<Option<IpAddr>> = a.iter().take(usize::from(round.largest_ttl)).copied().collect();
            let matches: Vec<u64> = prev_flows.iter().filter(|(_, e)| consistent_with(e, &seen)).map(|(id, _)| *id).collect();
            if !matches.is_empty() {
                let counted = matches.iter().any(|id| {
                    let before = refs.get(id).map_or(0, |r| r.rounds);
                    state.round_count(FlowId(*id)) == before + 1
                });
                if counted && matches.contains(&rf) {
                    attributed = Some(rf);
                } else {
                    v.push(Violation::new(
                        "C15",
                        "c15.limit-unattributed",
                        format!("round {k}: max-flows {} reached; the round matches existing flow(s) {matches:?} but none of them was updated (round flow id {rf})", t.max_flows),
                    ));
                }
            }
        } else if flows.iter().any(|(id, _)| *id == rf) {
            // cannot judge the match (failed/skipped probes): follow the implementation's choice
            let before = refs.get(&rf).map_or(0, |r| r.rounds);
            if state.round_count(FlowId(rf)) == before + 1 {
                attributed = Some(rf);
            }
        }
        if let Some(id) = attributed {
            // position-wise agreement with every address seen in the round
            if let (Some(a), Some((_, entries))) = (&addrs, flows.iter().find(|(i, _)| *i == id)) {
                for (pos, addr) in a.iter().enumerate() {
                    let Some(addr) = addr else { continue };
                    // the round's path ends at its reported length: answers to probes that
                    // overshot the target are not part of it
                    if pos + usize::from(t.first_ttl) > usize::from(round.largest_ttl) {
                        continue;
                    }
                    match entries.get(pos) {
                        Some(FlowEntry::Known(x)) if x == addr => {}
                        Some(e) => {
                            v.push(Violation::new(
                                "C15",
                                "c15.attribution-disagrees",
                                format!("round {k}: attributed to flow {id} whose position {pos} is {e}, the round saw {addr} there"),
                            ));
                        }
                        None => {
                            v.push(Violation::new(
                                "C15",
                                "c15.attribution-missing",
                                format!("round {k}: attributed to flow {id} which has no entry at position {pos}, the round saw {addr} there"),
                            ));
                        }
                    }
                }
            }
            refs.entry(id).or_default().apply(round);
        }
        // per-flow round counts and statistics are those of exactly the attributed rounds
        for (id, _) in &flows {
            let want = refs.get(id).map_or(0, |r| r.rounds);
            let got = state.round_count(FlowId(*id));
            if got != want {
                v.push(Violation::new("C15", "c15.flow-round-count", format!("round {k}: flow {id} counts {got} rounds, {want} rounds were attributed to it")));
            }
        }
        if let Some(id) = attributed {
            if let Some(r) = refs.get(&id) {
                if let Some(lowest) = r.lowest {
                    let hops = state.hops_for_flow(FlowId(id));
                    for (i, hop) in hops.iter().enumerate() {
                        let ttl = usize::from(lowest) + i;
                        if ttl > 255 {
                            break;
                        }
                        for (field, detail) in compare_hop(hop, &r.hops[ttl], t.max_samples) {
                            v.push(Violation::new("C15", format!("c15.flow-stats.{field}"), format!("after round {k}, flow {id} ttl {ttl}: {detail}")));
                        }
                    }
                }
            }
        }
        // while the target has never answered, the reported length of a round covers every
        // probe that was answered in it: an address seen beyond it is an address the flow
        // of the round does not record
        let target = t.target;
        if !target_answered {
            target_answered = round.probes.iter().any(|p| matches!(p, ProbeStatus::Complete(c) if c.host == target)) || round.reason == CompletionReason::TargetFound;
        }
        if !target_answered && rec.sc.synth.is_none() {
            for p in &round.probes {
                if let ProbeStatus::Complete(c) = p {
                    if c.ttl.0 > round.largest_ttl {
                        v.push(Violation::new(
                            "C15",
                            "c15.seen-beyond-recorded-length",
                            format!("round {k}: {} answered at ttl {} but the round (and so its flow) ends at {}; the target has not answered yet", c.host, c.ttl.0, round.largest_ttl),
                        ));
                        break;
                    }
                }
            }
        }
        prev_flows = flows;
        if v.len() > 8 {
            break;
        }
    }
    // "every address seen in that round" is what the network handed over: a response booked
    // to another probe than the one it answers puts an address at the wrong position
    if rec.sc.synth.is_none() {
        v.extend(
            relabel(c01(rec), "C15", "c01.", "c15.truth.")
                .into_iter()
                .filter(|x| x.sig.starts_with("c15.truth.missed") || x.sig.starts_with("c15.truth.responder") || x.sig.starts_with("c15.truth.ttl") || x.sig.starts_with("c15.truth.invented")),
        );
    }
    v
}

/// C19: NAT is flagged at the first hop that sees a rewritten datagram.
#[must_use]
pub fn c19(rec: &RunRecord) -> Vec<Violation> {
    use trippy_core::NatStatus;
    let mut v = Vec::new();
    let t = &rec.sc.tracer;
    let applicable = !t.v6 && t.proto == Proto::Udp && t.strat == Strat::Dublin;
    let mut expected: [Option<NatStatus>; 256] = [None; 256];
    // hops whose expectation rests on "first responding hop quotes a datagram whose source
    // port, but not its source address, was rewritten"
    let mut port_only_first = [false; 256];
    // hops whose probe went out with a UDP checksum field of zero (the computed checksum was
    // 0; such a datagram counts as unchecksummed, and an address translator leaves the field
    // alone, RFC 3022 section 4.1)
    let mut zero_csum_probe = [false; 256];
    for (k, round) in rec.rounds.iter().enumerate() {
        let attempts = attempts_of_round(rec, k);
        if attempts.len() != round.probes.len() {
            continue;
        }
        let mut prev: Option<u16> = None;
        for (a, p) in attempts.iter().zip(&round.probes) {
            let ProbeStatus::Complete(c) = p else { continue };
            let AttemptOutcome::OnWire(wid) = a.outcome else { continue };
            let w = &rec.world.wires[wid];
            if !applicable {
                if c.expected_udp_checksum.is_some() || c.actual_udp_checksum.is_some() {
                    v.push(Violation::new("C19", "c19.checksums-outside-dublin-v4", format!("round {k} ttl {}: checksums reported for a configuration where NAT detection does not apply", c.ttl.0)));
                }
                continue;
            }
            let Some(r) = accepted_response(&rec.world, w) else { continue };
            let Ok(d) = w.decoded.as_ref() else { continue };
            // truth from the wire: what the hop quoted, and what the probe carried when sent
            let Some(quoted) = r.quoted_udp_csum else { continue };
            let sent = d.l4_csum;
            let want = match prev {
                Some(pv) => {
                    if pv == quoted {
                        NatStatus::NotDetected
                    } else {
                        NatStatus::Detected
                    }
                }
                None => {
                    if sent == quoted {
                        NatStatus::NotDetected
                    } else {
                        NatStatus::Detected
                    }
                }
            };
            port_only_first[c.ttl.0 as usize] = prev.is_none() && r.rewritten == (false, true);
            zero_csum_probe[c.ttl.0 as usize] = sent == 0 && r.rewritten != (false, false);
            prev = Some(quoted);
            expected[c.ttl.0 as usize] = Some(want);
            if c.actual_udp_checksum.map(|x| x.0) != Some(quoted) {
                v.push(Violation::new("C19", "c19.actual-checksum", format!("round {k} ttl {}: reported quoted checksum {:?}, on the wire {quoted:#06x}", c.ttl.0, c.actual_udp_checksum)));
            }
        }
        let Some(state) = &round.snapshot else { continue };
        let hops = state.hops();
        for hop in hops {
            let ttl = hop.ttl();
            if ttl == 0 {
                continue;
            }
            let want = if applicable {
                expected[ttl as usize].unwrap_or(NatStatus::NotApplicable)
            } else {
                NatStatus::NotApplicable
            };
            if hop.last_nat_status() != want {
                v.push(Violation::new(
                    "C19",
                    format!(
                        "c19.status.{}{:?}-instead-of-{want:?}",
                        if applicable && zero_csum_probe[ttl as usize] {
                            "unchecksummed-probe."
                        } else if applicable && port_only_first[ttl as usize] {
                            "port-only-rewrite."
                        } else {
                            ""
                        },
                        hop.last_nat_status()
                    ),
                    format!("after round {k}, ttl {ttl}: NAT status {:?}, the quoted checksums on the wire give {want:?}", hop.last_nat_status()),
                ));
            }
        }
        // the table of the flow this round went to shows, for the hops of this round, what
        // the combined table shows (both were brought up to date by this very round)
        let rf = state.round_flow_id();
        // (only while new flows can still be registered: then this round went to `rf` for certain)
        if rf.0 != 0 && state.flows().iter().any(|(_, id)| *id == rf) && state.flows().len() < t.max_flows && v.is_empty() {
            // (hops answered in this round: a hop that stayed silent keeps whatever an earlier
            // round left in either table)
            let probed: Vec<u8> = round
                .probes
                .iter()
                .filter_map(|p| if let ProbeStatus::Complete(c) = p { Some(c.ttl.0) } else { None })
                .filter(|t| *t <= round.largest_ttl)
                .collect();
            let by_flow = state.hops_for_flow(rf);
            for hop in hops {
                if !probed.contains(&hop.ttl()) {
                    continue;
                }
                if let Some(fh) = by_flow.iter().find(|h| h.ttl() == hop.ttl()) {
                    if fh.last_nat_status() != hop.last_nat_status() {
                        v.push(Violation::new(
                            "C19",
                            "c19.flow-status",
                            format!("after round {k}, ttl {}: flow {} shows NAT status {:?}, the combined table {:?}", hop.ttl(), rf.0, fh.last_nat_status(), hop.last_nat_status()),
                        ));
                        break;
                    }
                }
            }
        }
        if v.len() > 8 {
            break;
        }
    }
    // "responding hop" means a hop whose response the network handed over: a response the
    // tracer failed to book (or booked elsewhere) hides the hop at which NAT shows
    // (send and receive times are wall-clock times: not comparable after a clock step)
    if applicable && rec.sc.synth.is_none() && rec.sc.faults.wall_clock_back.is_none() && v.is_empty() {
        v.extend(
            relabel(c01(rec), "C19", "c01.", "c19.truth.")
                .into_iter()
                .filter(|x| x.sig.starts_with("c19.truth.missed") || x.sig.starts_with("c19.truth.status") || x.sig.starts_with("c19.truth.responder") || x.sig.starts_with("c19.truth.invented")),
        );
    }
    v
}

/// What the tracer should report for an encoded extension object list.
fn expected_extensions(objs: &[crate::wire::ExtObject]) -> trippy_core::Extensions {
    use trippy_core::{Extension, MplsLabelStack, MplsLabelStackMember, UnknownExtension};
    let extensions = objs
        .iter()
        .map(|o| {
            if o.class == 1 {
                let members = o
                    .payload
                    .chunks_exact(4)
                    .map(|c| {
                        let v = u32::from_be_bytes([c[0], c[1], c[2], c[3]]);
                        MplsLabelStackMember {
                            label: v >> 12,
                            exp: ((v >> 9) & 7) as u8,
                            bos: ((v >> 8) & 1) as u8,
                            ttl: (v & 0xff) as u8,
                        }
                    })
                    .collect();
                Extension::Mpls(MplsLabelStack { members })
            } else {
                Extension::Unknown(UnknownExtension {
                    class_num: o.class,
                    class_subtype: o.ctype,
                    bytes: o.payload.clone(),
                })
            }
        })
        .collect();
    trippy_core::Extensions { extensions }
}

/// C14: ICMP multi-part extensions are parsed faithfully and always terminate.
#[must_use]
pub fn c14(rec: &RunRecord) -> Vec<Violation> {
    let mut v = Vec::new();
    let t = &rec.sc.tracer;
    // what the last answered probe of each ttl reported (with snapshots only): a hop shows
    // the objects of its latest response, none if that response carried none
    let mut last_ext: Vec<Option<Option<trippy_core::Extensions>>> = vec![None; 256];
    for (k, round) in rec.rounds.iter().enumerate() {
        for p in &round.probes {
            if let ProbeStatus::Complete(c) = p {
                last_ext[usize::from(c.ttl.0)] = Some(c.extensions.clone());
            }
        }
        if let Some(state) = &round.snapshot {
            if rec.sc.clear_after_round.is_none() {
                for hop in state.hops() {
                    if let Some(want) = &last_ext[usize::from(hop.ttl())] {
                        if hop.ttl() > 0 && hop.extensions() != want.as_ref() {
                            v.push(Violation::new(
                                "C14",
                                "c14.hop-extensions-stale",
                                format!("after round {k}, ttl {}: the hop shows {:?}, its latest response carried {:?}", hop.ttl(), hop.extensions(), want),
                            ));
                            break;
                        }
                    }
                }
            }
        }
        let attempts = attempts_of_round(rec, k);
        if attempts.len() != round.probes.len() {
            continue;
        }
        for (a, p) in attempts.iter().zip(&round.probes) {
            let AttemptOutcome::OnWire(wid) = a.outcome else { continue };
            let w = &rec.world.wires[wid];
            let Some(r) = accepted_response(&rec.world, w) else { continue };
            if !matches!(r.kind, RespKind::TimeExceeded | RespKind::Unreachable) {
                continue;
            }
            let layout = match (&r.exts, r.rfc4884_len) {
                (Some(_), 0) => "legacy128",
                (Some(_), _) => "rfc4884",
                (None, 0) => "plain",
                (None, _) => "rfc4884-noext",
            };
            match p {
                ProbeStatus::Complete(c) => {
                    if !t.ext_enabled {
                        if c.extensions.is_some() {
                            v.push(Violation::new("C14", "c14.reported-while-disabled", format!("round {k} ttl {}: extensions reported although parsing is disabled", c.ttl.0)));
                        }
                        continue;
                    }
                    // clipped by the tracer's 1024-octet receive buffer: the tail is gone
                    if r.ambiguous_ext || r.dgram_len > 1024 {
                        continue;
                    }
                    let want = r.exts.as_ref().map(|o| expected_extensions(o));
                    if c.extensions != want {
                        v.push(Violation::new(
                            "C14",
                            format!("c14.extensions-differ.{layout}.{}", if t.v6 { "v6" } else { "v4" }),
                            format!(
                                "round {k} ttl {} ({layout}, length attribute {}): reported {:?}, encoded {:?}",
                                c.ttl.0, r.rfc4884_len, c.extensions, want
                            ),
                        ));
                    }
                }
                ProbeStatus::Awaited(x) => {
                    // the original datagram was not recovered: identity lost
                    v.push(Violation::new(
                        "C14",
                        format!("c14.identity-lost.{layout}.{}", if t.v6 { "v6" } else { "v4" }),
                        format!("round {k} ttl {}: a genuine {:?} ({layout}, length attribute {}) was handed over but the probe is reported awaited", x.ttl.0, r.kind, r.rfc4884_len),
                    ));
                }
                _ => {}
            }
        }
        if v.len() > 8 {
            break;
        }
    }
    match &rec.end {
        RunEnd::Panic(p) => v.push(Violation::new("C14", format!("c14.panic.{}", panic_loc(p)), format!("the tracer panicked: {p}"))),
        RunEnd::Err(text, _) if text.contains("invalid packet") => {
            v.push(Violation::new("C14", "c14.packet-error", format!("a standards-conforming message ended the trace with {text}")));
        }
        _ => {}
    }
    v
}


/// C04: no inbound packet, however malformed, can crash the tracer.
#[must_use]
pub fn c04(rec: &RunRecord) -> Vec<Violation> {
    let mut v = Vec::new();
    let t = &rec.sc.tracer;
    let cell = format!("{:?}.{}.{}", t.proto, if t.v6 { "v6" } else { "v4" }, if t.ext_enabled { "ext" } else { "noext" });
    if let RunEnd::Panic(p) = &rec.end {
        let kind = if p.contains("overflow") { "overflow" } else { "panic" };
        v.push(Violation::new(
            "C04",
            format!("c04.{kind}.{}", panic_loc(p)),
            format!("the receive path panicked ({cell}; mutation {:?}): {p}", rec.sc.mutation),
        ));
    }
    if let Some(e) = &rec.world.harness_error {
        v.push(Violation::new("C04", "c04.no-termination", format!("the run did not end within its call budget ({cell}): {e}")));
    }
    if let Some((view, what)) = &rec.world.sniff_failure {
        v.push(Violation::new(
            "C04",
            format!("c04.accessor.{view}.{}", panic_loc(what)),
            format!("an accessor of {view} failed on a received datagram ({cell}; mutation {:?}): {what}", rec.sc.mutation),
        ));
    }
    v
}


/// C16 (builder path): every configuration the builder accepts can execute rounds without
/// panicking; an unsupported combination is rejected before any socket is created.
#[must_use]
pub fn c16(rec: &RunRecord) -> Vec<Violation> {
    let mut v = Vec::new();
    let t = &rec.sc.tracer;
    let combo = format!(
        "{:?}.{:?}.{}",
        t.proto,
        t.strat,
        match t.ports {
            Ports::None => "none",
            Ports::FixedSrc(_) => "src",
            Ports::FixedDest(_) => "dest",
            Ports::FixedBoth(..) => "both",
        }
    );
    match &rec.end {
        RunEnd::Rejected(_) => {
            if rec.calls_total != 0 {
                v.push(Violation::new("C16", "c16.rejected-after-sockets", format!("the builder rejected the configuration after {} socket calls", rec.calls_total)));
            }
        }
        RunEnd::Panic(p) => {
            let loc = panic_loc(p);
            let what = if p.contains("not implemented") {
                format!("c16.unimplemented.{combo}")
            } else {
                format!("c16.panic.{loc}")
            };
            v.push(Violation::new(
                "C16",
                what,
                format!(
                    "accepted by the builder ({combo}, first-ttl {}, max-ttl {}, max-inflight {}, packet size {}, initial sequence {}) but tracing panicked: {p}",
                    t.first_ttl, t.max_ttl, t.max_inflight, t.packet_size, t.initial_seq
                ),
            ));
        }
        _ => {}
    }
    if let Some(e) = &rec.world.harness_error {
        v.push(Violation::new("C16", "c16.no-termination", format!("the run did not end within its call budget: {e}")));
    }
    // querying the resulting state must not panic either
    if let Some(s) = &rec.final_state {
        let ok = std::panic::catch_unwind(std::panic::AssertUnwindSafe(|| {
            let _ = (s.hops().len(), s.target_hop(trippy_core::State::default_flow_id()).ttl(), s.round_count(trippy_core::State::default_flow_id()));
        }));
        if ok.is_err() {
            v.push(Violation::new("C16", "c16.state-query-panicked", "querying the state of an accepted configuration panicked".to_string()));
        } else {
            // the limits in force are the configured ones, also after the state was cleared
            let over = std::panic::catch_unwind(std::panic::AssertUnwindSafe(|| {
                let samples = s.hops().iter().map(|h| h.samples().len()).max().unwrap_or(0);
                (samples, s.flows().len())
            }));
            if let Ok((samples, flows)) = over {
                if samples > t.max_samples {
                    v.push(Violation::new("C16", "c16.limit.max-samples", format!("a hop keeps {samples} samples, max-samples is {}", t.max_samples)));
                }
                if flows > t.max_flows {
                    v.push(Violation::new("C16", "c16.limit.max-flows", format!("{flows} flows are on record, max-flows is {}", t.max_flows)));
                }
            }
        }
    }
    v
}
