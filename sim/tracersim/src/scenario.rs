//! Scenario description: tracer configuration + simulated network + fault plan.
//!
//! A scenario is fully determined by the tape (the header draws made by a family's
//! generator); the per-packet fates are drawn from the same tape while the run proceeds.

use crate::wire::{ErrorLayout, ExtObject};
use serde_json::{json, Value};
use std::net::{IpAddr, Ipv4Addr, Ipv6Addr};

#[derive(Debug, Clone, Copy, PartialEq, Eq, Hash)]
pub enum Proto {
    Icmp,
    Udp,
    Tcp,
}

#[derive(Debug, Clone, Copy, PartialEq, Eq, Hash)]
pub enum Strat {
    Classic,
    Paris,
    Dublin,
}

#[derive(Debug, Clone, Copy, PartialEq, Eq, Hash)]
pub enum Ports {
    None,
    FixedSrc(u16),
    FixedDest(u16),
    FixedBoth(u16, u16),
}

/// Tracer configuration as handed to the real `Builder`.
#[derive(Debug, Clone, PartialEq, Eq)]
pub struct TracerCfg {
    pub v6: bool,
    pub proto: Proto,
    pub strat: Strat,
    pub ports: Ports,
    pub unprivileged: bool,
    pub ext_enabled: bool,
    pub first_ttl: u8,
    pub max_ttl: u8,
    pub max_inflight: u8,
    pub initial_seq: u16,
    pub packet_size: u16,
    pub pattern: u8,
    pub tos: u8,
    pub trace_id: u16,
    pub rounds: u32,
    pub min_round_ns: u64,
    pub max_round_ns: u64,
    pub grace_ns: u64,
    pub read_timeout_ns: u64,
    pub tcp_connect_timeout_ns: u64,
    pub max_samples: usize,
    pub max_flows: usize,
    /// `Some` = explicit source address (validated by bind), `None` = discovered.
    pub explicit_source: bool,
    pub interface: Option<String>,
    pub source: IpAddr,
    pub target: IpAddr,
}

impl TracerCfg {
    /// The configuration cell (protocol x family x strategy x ports x privilege x ext).
    #[must_use]
    pub fn cell(&self) -> String {
        format!(
            "{:?}/{}/{:?}/{}/{}/{}",
            self.proto,
            if self.v6 { "v6" } else { "v4" },
            self.strat,
            match self.ports {
                Ports::None => "none",
                Ports::FixedSrc(_) => "src",
                Ports::FixedDest(_) => "dest",
                Ports::FixedBoth(..) => "both",
            },
            if self.unprivileged { "unpriv" } else { "priv" },
            if self.ext_enabled { "ext" } else { "noext" },
        )
    }

    #[must_use]
    pub fn to_json(&self) -> Value {
        json!({
            "family": if self.v6 { "v6" } else { "v4" },
            "protocol": format!("{:?}", self.proto),
            "strategy": format!("{:?}", self.strat),
            "ports": format!("{:?}", self.ports),
            "unprivileged": self.unprivileged,
            "icmp_extensions": self.ext_enabled,
            "first_ttl": self.first_ttl,
            "max_ttl": self.max_ttl,
            "max_inflight": self.max_inflight,
            "initial_sequence": self.initial_seq,
            "packet_size": self.packet_size,
            "payload_pattern": self.pattern,
            "tos": self.tos,
            "trace_id": self.trace_id,
            "rounds": self.rounds,
            "min_round_ns": self.min_round_ns,
            "max_round_ns": self.max_round_ns,
            "grace_ns": self.grace_ns,
            "read_timeout_ns": self.read_timeout_ns,
            "tcp_connect_timeout_ns": self.tcp_connect_timeout_ns,
            "max_samples": self.max_samples,
            "max_flows": self.max_flows,
            "explicit_source": self.explicit_source,
            "interface": self.interface,
            "source": self.source.to_string(),
            "target": self.target.to_string(),
        })
    }
}

/// How much of the offending datagram a responder quotes (IPv4; IPv6 always quotes all).
#[derive(Debug, Clone, Copy, PartialEq, Eq)]
pub enum Quote {
    /// IP header + 8 octets (RFC 792 minimum).
    Min8,
    /// IP header + `n` octets of the transport segment (clipped to what exists, >= 8).
    Bytes(u16),
    /// The whole datagram (RFC 1812: as much as possible).
    Full,
}

/// A NAT-like device: rewrites the forwarded datagram's source address and/or source port.
#[derive(Debug, Clone, Copy, PartialEq, Eq)]
pub struct NatCfg {
    pub rewrite_addr: bool,
    pub rewrite_port: bool,
    /// Does the device's own Time Exceeded quote the rewritten datagram?
    pub before_quote: bool,
}

#[derive(Debug, Clone, PartialEq, Eq)]
pub struct RouterCfg {
    pub addr: IpAddr,
    pub silent: bool,
    /// Answers the first of every `rate_limit` expiring probes (1 = always).
    pub rate_limit: u32,
    pub duplicate: bool,
    pub extra_delay_ns: u64,
    pub quote: Quote,
    pub layout: ErrorLayout,
    /// TTL value in the quoted header (routers differ: 0 or 1).
    pub quoted_ttl: u8,
    /// Rewrites TOS / traffic class of forwarded datagrams (visible in later quotations).
    pub tos_rewrite: Option<u8>,
    pub nat: Option<NatCfg>,
    /// Blackhole: returns Destination Unreachable with this code instead of forwarding.
    pub unreachable_code: Option<u8>,
}

#[derive(Debug, Clone, PartialEq, Eq)]
pub struct PathCfg {
    pub routers: Vec<RouterCfg>,
}

#[derive(Debug, Clone, Copy, PartialEq, Eq)]
pub enum TargetBehaviour {
    /// ICMP: echo reply; UDP: port unreachable; TCP: SYN-ACK (open) or RST (closed).
    Normal,
    Silent,
}

#[derive(Debug, Clone, PartialEq, Eq)]
pub struct TargetCfg {
    pub behaviour: TargetBehaviour,
    /// Answer ICMP/UDP probes from this address instead of the probed one.
    pub reply_from: Option<IpAddr>,
    pub tcp_open: bool,
    /// TCP: the target (a filter on it) rejects the SYN with an ICMP Destination Unreachable
    /// of this code instead of answering the handshake.
    pub tcp_reject_code: Option<u8>,
    pub quote: Quote,
    pub layout: ErrorLayout,
}

#[derive(Debug, Clone, PartialEq, Eq)]
pub struct NetCfg {
    /// ECMP alternatives; the flow hash of a probe selects one.
    pub paths: Vec<PathCfg>,
    /// At the start of this round the paths are replaced.
    pub route_change: Option<(u32, Vec<PathCfg>)>,
    pub target: TargetCfg,
    pub probe_loss_pm: u32,
    pub resp_loss_pm: u32,
    pub dup_pm: u32,
    pub extra_delay_pm: u32,
    pub late_pm: u32,
    pub hop_delay_ns: u64,
    pub jitter_ns: u64,
    /// Salt of the ECMP hash.
    pub ecmp_salt: u32,
    /// A device in front of the router at distance `.0` inserts `.1` words of IP options
    /// (no-operation octets) into every IPv4 datagram it forwards: routers behind it quote
    /// an internet header longer than the one the tracer sent (RFC 792: "internet header +
    /// 64 bits"), the identifying fields are where the header length says.
    pub ip_options: Option<(u32, u8)>,
}

impl NetCfg {
    /// No responder anywhere: for harnesses that drive the receive path themselves.
    #[must_use]
    pub fn single_path(&self) -> bool {
        self.paths.len() == 1 && self.route_change.is_none()
    }
}

/// Adversarial deliveries (C03): what gets injected into the receive queue besides
/// genuine responses.
#[derive(Debug, Clone, Copy, PartialEq, Eq, Default)]
pub struct InjectCfg {
    /// Re-deliver every response of the previous round at the start of the next one.
    pub replay_prev_round_pm: u32,
    /// After a genuine response, also deliver a response for a never-sent sequence.
    pub never_sent_pm: u32,
    /// Deliver a response that differs from a genuine one in exactly one identity field.
    pub foreign_pm: u32,
    /// Deliver unrelated ICMP messages.
    pub unrelated_pm: u32,
    /// Corrupt genuine responses in flight (C04 only).
    pub corrupt_pm: u32,
    /// Foreign ICMP quotations may differ in the destination only (same identifier): the
    /// negative half of C02; outside C03's quantifier (distinct identifiers per tracer).
    pub icmp_other_destination: bool,
    /// Background traffic on the receive socket: unrelated ICMP messages at about this
    /// interval (0 = none), all through the run and whatever the tracer is doing, so that
    /// some arrive while a round is only waiting for its deadline.
    pub chatter_gap_ns: u64,
}

#[derive(Debug, Clone, Copy, PartialEq, Eq, Hash, PartialOrd, Ord)]
pub enum Site {
    NewSocket,
    Bind,
    SetTtl,
    SetTos,
    SetHops,
    SetHdrIncl,
    SetReusePort,
    Connect,
    SendTo,
    IsReadable,
    IsWritable,
    Read,
    RecvFrom,
    TakeError,
    PeerAddr,
    Shutdown,
    IfaceLookup,
    Discover,
}

#[derive(Debug, Clone, Copy, PartialEq, Eq)]
pub struct ScriptedFault {
    pub site: Site,
    /// Fires on the `nth` (0-based) call of `site` after the channel is connected
    /// (or, for setup sites, from the start).
    pub nth: u32,
    pub errno: i32,
    /// Fire in the run phase (after the channel is connected) or in the setup phase.
    pub run_phase: bool,
}

#[derive(Debug, Clone, PartialEq, Eq, Default)]
pub struct FaultCfg {
    /// Per-call probability of a random socket fault once the channel is connected.
    pub sock_pm: u32,
    /// Among random socket faults, share (per mille) that are transient/benign kinds.
    pub sock_benign_pm: u32,
    pub scripted: Vec<ScriptedFault>,
    /// Per socket call probability of a forward clock stall, and its maximum length.
    pub stall_pm: u32,
    pub stall_max_ns: u64,
    /// TCP `bind` fails with EADDRINUSE with this probability (port collisions).
    pub addr_in_use_pm: u32,
    /// ... but only from this round on (a collision storm that starts late).
    pub addr_in_use_from_round: u32,
    /// The per-probe datagram sockets of unprivileged UDP collide as well.
    pub addr_in_use_udp: bool,
    /// A collision storm of exact length: in every round from `addr_in_use_from_round` on,
    /// after `.0` successful TCP binds the next `.1` binds fail with EADDRINUSE.
    pub addr_in_use_burst: Option<(u32, u32)>,
    /// At socket call number `.0` the wall clock is stepped back by `.1` nanoseconds (the
    /// monotonic clock runs on): send and receive times the tracer takes around that moment
    /// may be out of order.
    pub wall_clock_back: Option<(u64, u64)>,
    pub tick_base_ns: u64,
    pub tick_jitter_ns: u64,
}

/// The other tracer instance on the same host (`trip a b`: identifiers pid, pid+1, ...).
#[derive(Debug, Clone, Copy, PartialEq, Eq)]
pub struct NeighbourCfg {
    /// Its trace identifier is this tracer's plus `id_delta` (1..).
    pub id_delta: u16,
    /// It traces another target (always so for UDP and TCP, whose probes do not carry the
    /// trace identifier).
    pub other_target: bool,
    /// It starts this much later than this tracer.
    pub start_offset_ns: u64,
}

/// Shape of the synthetic rounds of a run (C05 / C10 / C15 "synthetic round sequences").
#[derive(Debug, Clone, Copy, PartialEq, Eq)]
pub struct SynthCfg {
    pub rounds: u32,
    /// Largest number of ttl positions in a round.
    pub max_len: u8,
    /// 0: sub-microsecond, 1: typical (10 us .. 300 ms), 2: 0 .. 10 s with exact extremes, 3: constant
    pub rtt_regime: u8,
    /// Number of alternative responder addresses per ttl (flows).
    pub addr_pool: u8,
    /// Weights of complete / awaited / failed for one position.
    pub w_complete: u32,
    pub w_awaited: u32,
    pub w_failed: u32,
    /// Per-mille chance of a skipped slot before a position (TCP re-issue).
    pub skipped_pm: u32,
    /// Per-mille chance that a round is cut short (path shrinks).
    pub shrink_pm: u32,
    /// Take a snapshot after every round (oracles that follow the state round by round).
    pub dense: bool,
}

/// A systematic corruption applied to every ICMP datagram the network delivers (C04 sweep).
#[derive(Debug, Clone, Copy, PartialEq, Eq)]
pub struct Mutation {
    /// Which length / offset / type field is overwritten (see `net::MUT_FIELDS`).
    pub field: u8,
    pub value: u32,
    /// Truncate the datagram to this many octets (after the field rewrite).
    pub trunc: Option<u16>,
}

#[derive(Debug, Clone, PartialEq, Eq)]
pub struct Scenario {
    pub tracer: TracerCfg,
    pub net: NetCfg,
    pub inject: InjectCfg,
    pub faults: FaultCfg,
    /// Generator's own classification, used by oracles that need a stable path.
    pub stable: bool,
    /// Keep the per-round records small (long C07 runs).
    pub light: bool,
    /// Systematic corruption of every delivered ICMP datagram (C04 sweep).
    pub mutation: Option<Mutation>,
    /// Run the passive sniffer over every datagram handed to the tracer.
    pub sniff: bool,
    /// The generator guarantees a quiet, lossless network whose rounds are long enough for
    /// every probe up to the target to be sent and answered: every round outside a route
    /// change must find the target at its true distance.
    pub epoch_liveness: bool,
    /// Synthetic round source: the rounds are drawn from the tape and applied to the real
    /// tracer state through its round handler; the strategy and the network do not run.
    pub synth: Option<SynthCfg>,
    /// A second real tracer shares the network: it is run first, over the same simulated
    /// network, and every datagram its receive socket was handed is delivered to this
    /// tracer's receive socket as well (a raw socket sees all ICMP of the host).
    pub neighbour: Option<NeighbourCfg>,
    /// Keep the bytes of every datagram handed to the receive socket (neighbour recording).
    pub record_rx: bool,
    /// The network is quiet and lossless and rounds are long: the results with the neighbour
    /// must equal, hop by hop up to the path length, those of the same run without it.
    pub alone_equal: bool,
    /// `Tracer::clear` is called right after this round was published.
    pub clear_after_round: Option<u32>,
}

fn layout_json(l: &ErrorLayout) -> Value {
    fn objs(o: &[ExtObject]) -> Value {
        Value::Array(
            o.iter()
                .map(|x| json!({"class": x.class, "ctype": x.ctype, "len": x.payload.len()}))
                .collect(),
        )
    }
    match l {
        ErrorLayout::Plain => json!("plain"),
        ErrorLayout::CompliantNoExt => json!("rfc4884-length-no-ext"),
        ErrorLayout::Compliant(o) => json!({"rfc4884": objs(o)}),
        ErrorLayout::Legacy128(o) => json!({"legacy128": objs(o)}),
        ErrorLayout::CompliantShortLength(o) => json!({"rfc4884-unpadded-length": objs(o)}),
    }
}

fn path_json(p: &PathCfg) -> Value {
    Value::Array(
        p.routers
            .iter()
            .map(|r| {
                json!({
                    "addr": r.addr.to_string(),
                    "silent": r.silent,
                    "rate_limit": r.rate_limit,
                    "duplicate": r.duplicate,
                    "extra_delay_ns": r.extra_delay_ns,
                    "quote": format!("{:?}", r.quote),
                    "layout": layout_json(&r.layout),
                    "quoted_ttl": r.quoted_ttl,
                    "tos_rewrite": r.tos_rewrite,
                    "nat": r.nat.map(|n| format!("{n:?}")),
                    "unreachable_code": r.unreachable_code,
                })
            })
            .collect(),
    )
}

impl Scenario {
    #[must_use]
    pub fn to_json(&self) -> Value {
        json!({
            "tracer": self.tracer.to_json(),
            "network": {
                "paths": self.net.paths.iter().map(path_json).collect::<Vec<_>>(),
                "route_change": self.net.route_change.as_ref().map(|(r, p)| json!({"round": r, "paths": p.iter().map(path_json).collect::<Vec<_>>()})),
                "target": {
                    "behaviour": format!("{:?}", self.net.target.behaviour),
                    "reply_from": self.net.target.reply_from.map(|a| a.to_string()),
                    "tcp_open": self.net.target.tcp_open,
                    "tcp_reject_code": self.net.target.tcp_reject_code,
                    "quote": format!("{:?}", self.net.target.quote),
                    "layout": layout_json(&self.net.target.layout),
                },
                "probe_loss_pm": self.net.probe_loss_pm,
                "resp_loss_pm": self.net.resp_loss_pm,
                "dup_pm": self.net.dup_pm,
                "extra_delay_pm": self.net.extra_delay_pm,
                "late_pm": self.net.late_pm,
                "hop_delay_ns": self.net.hop_delay_ns,
                "jitter_ns": self.net.jitter_ns,
            },
            "inject": format!("{:?}", self.inject),
            "faults": {
                "sock_pm": self.faults.sock_pm,
                "scripted": self.faults.scripted.iter().map(|s| format!("{:?}#{} errno {} ({})", s.site, s.nth, s.errno, if s.run_phase { "run" } else { "setup" })).collect::<Vec<_>>(),
                "stall_pm": self.faults.stall_pm,
                "stall_max_ns": self.faults.stall_max_ns,
                "ip_options": self.net.ip_options.map(|(a, b)| vec![a, u32::from(b)]),
                "addr_in_use_pm": self.faults.addr_in_use_pm,
                "addr_in_use_from_round": self.faults.addr_in_use_from_round,
                "addr_in_use_burst": self.faults.addr_in_use_burst.map(|(a, b)| vec![a, b]),
                "wall_clock_back": self.faults.wall_clock_back.map(|(a, b)| vec![a, b]),
                "tick_base_ns": self.faults.tick_base_ns,
                "tick_jitter_ns": self.faults.tick_jitter_ns,
            },
            "stable": self.stable,
            "mutation": self.mutation.map(|m| format!("{m:?}")),
            "synthetic_rounds": self.synth.map(|m| format!("{m:?}")),
            "neighbour_tracer": self.neighbour.map(|m| format!("{m:?}")),
        })
    }
}

#[must_use]
pub fn default_source(v6: bool) -> IpAddr {
    if v6 {
        IpAddr::V6(Ipv6Addr::new(0x2001, 0xdb8, 1, 0, 0, 0, 0, 1))
    } else {
        IpAddr::V4(Ipv4Addr::new(192, 0, 2, 1))
    }
}

/// The target of a neighbouring tracer that traces somewhere else.
#[must_use]
pub fn other_target(v6: bool) -> IpAddr {
    if v6 {
        IpAddr::V6(Ipv6Addr::new(0x2001, 0xdb8, 0xffff, 0, 0, 0, 0, 0x9a))
    } else {
        IpAddr::V4(Ipv4Addr::new(203, 0, 113, 100))
    }
}

#[must_use]
pub fn default_target(v6: bool) -> IpAddr {
    if v6 {
        IpAddr::V6(Ipv6Addr::new(0x2001, 0xdb8, 0xffff, 0, 0, 0, 0, 0x99))
    } else {
        IpAddr::V4(Ipv4Addr::new(203, 0, 113, 99))
    }
}

/// Address of the router at distance `hop` (1-based) on ECMP branch `branch`.
#[must_use]
pub fn router_addr(v6: bool, hop: u32, branch: u32, variant: u32) -> IpAddr {
    if v6 {
        IpAddr::V6(Ipv6Addr::new(
            0xfd00,
            variant as u16,
            0,
            0,
            0,
            0,
            branch as u16,
            hop as u16,
        ))
    } else {
        IpAddr::V4(Ipv4Addr::new(10, (variant * 16 + branch) as u8, (hop >> 8) as u8, hop as u8))
    }
}
