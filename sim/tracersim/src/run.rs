//! Execute one scenario: the real `Builder` and `Tracer` over the simulated world.

use crate::clock;
use crate::scenario::{Ports, Proto, Scenario, Strat};
use crate::world::{SimPlatform, SimSocket, World, WORLD};
use simcore::Tape;
use std::cell::RefCell;
use std::panic::{catch_unwind, AssertUnwindSafe};
use std::sync::Once;
use std::time::Duration;
use trippy_core::{
    Builder, CompletionReason, IcmpExtensionParseMode, MultipathStrategy, Port, PortDirection,
    PrivilegeMode, ProbeStatus, Protocol, State, Tracer,
};

thread_local! {
    static PANIC_INFO: RefCell<Option<String>> = const { RefCell::new(None) };
    static IN_SIM: std::cell::Cell<bool> = const { std::cell::Cell::new(false) };
}

static HOOK: Once = Once::new();

/// Install a process-wide panic hook that records the location of panics raised while a
/// simulation is running on the panicking thread (and stays silent for them).
pub fn install_panic_hook() {
    HOOK.call_once(|| {
        let prev = std::panic::take_hook();
        std::panic::set_hook(Box::new(move |info| {
            let in_sim = IN_SIM.try_with(std::cell::Cell::get).unwrap_or(false);
            if in_sim {
                let loc = info
                    .location()
                    .map_or_else(|| "unknown".to_string(), |l| format!("{}:{}", l.file(), l.line()));
                let msg = if let Some(s) = info.payload().downcast_ref::<&str>() {
                    (*s).to_string()
                } else if let Some(s) = info.payload().downcast_ref::<String>() {
                    s.clone()
                } else {
                    "panic".to_string()
                };
                let _ = PANIC_INFO.try_with(|p| {
                    if let Ok(mut g) = p.try_borrow_mut() {
                        *g = Some(format!("{loc}: {msg}"));
                    }
                });
            } else {
                prev(info);
            }
        }));
    });
}

/// Mark this thread as running a simulation (panics are recorded silently).
pub fn set_in_sim(on: bool) {
    IN_SIM.with(|c| c.set(on));
    if on {
        PANIC_INFO.with(|p| *p.borrow_mut() = None);
    }
}

/// The location and message of the last panic caught on this thread during a simulation.
pub fn take_panic_info() -> Option<String> {
    PANIC_INFO.with(|p| p.borrow_mut().take())
}

/// One published round as seen by the callback.
#[derive(Debug, Clone)]
pub struct RoundRec {
    pub idx: u32,
    pub probes: Vec<ProbeStatus>,
    pub largest_ttl: u8,
    pub reason: CompletionReason,
    /// Virtual time when the callback ran (no tick consumed).
    pub t_cb: u64,
    /// Number of clock reads served before the callback; the deciding `now` of
    /// `update_round` is read number `reads_cb - 1`.
    pub reads_cb: u64,
    pub snapshot: Option<State>,
    pub attempts_end: usize,
    pub wires_end: usize,
    pub resps_end: usize,
    pub calls_end: u64,
    pub readable_marks: [u64; 3],
    pub ticks_total: u64,
}

/// How a run ended.
#[derive(Debug, Clone, PartialEq, Eq)]
pub enum RunEnd {
    Ok,
    /// `Builder::build` rejected the configuration.
    Rejected(String),
    /// The tracer returned this error (display text, debug text).
    Err(String, String),
    /// The tracer panicked at this location.
    Panic(String),
}

pub struct RunRecord {
    pub sc: Scenario,
    pub rounds: Vec<RoundRec>,
    pub end: RunEnd,
    pub final_state: Option<State>,
    pub world: World,
    pub clock_log: Vec<u64>,
    pub t_start: u64,
    pub t_end: u64,
    pub tape_record: Vec<u32>,
    /// Socket calls made before the tracer reported its end.
    pub calls_total: u64,
    pub source_addr: Option<std::net::IpAddr>,
}

/// Options of a run that are not part of the scenario.
#[derive(Debug, Clone, Copy)]
pub struct RunOpts {
    pub snapshots: bool,
    pub clock_log: bool,
}

impl Default for RunOpts {
    fn default() -> Self {
        Self {
            snapshots: true,
            clock_log: true,
        }
    }
}

#[must_use]
pub fn build_tracer(sc: &Scenario) -> Result<Tracer, String> {
    let t = &sc.tracer;
    let proto = match t.proto {
        Proto::Icmp => Protocol::Icmp,
        Proto::Udp => Protocol::Udp,
        Proto::Tcp => Protocol::Tcp,
    };
    let strat = match t.strat {
        Strat::Classic => MultipathStrategy::Classic,
        Strat::Paris => MultipathStrategy::Paris,
        Strat::Dublin => MultipathStrategy::Dublin,
    };
    let ports = match t.ports {
        Ports::None => PortDirection::None,
        Ports::FixedSrc(s) => PortDirection::FixedSrc(Port(s)),
        Ports::FixedDest(d) => PortDirection::FixedDest(Port(d)),
        Ports::FixedBoth(s, d) => PortDirection::FixedBoth(Port(s), Port(d)),
    };
    Builder::new(t.target)
        .source_addr(if t.explicit_source { Some(t.source) } else { None })
        .interface(t.interface.clone())
        .protocol(proto)
        .trace_identifier(t.trace_id)
        .privilege_mode(if t.unprivileged {
            PrivilegeMode::Unprivileged
        } else {
            PrivilegeMode::Privileged
        })
        .multipath_strategy(strat)
        .packet_size(t.packet_size)
        .payload_pattern(t.pattern)
        .tos(t.tos)
        .icmp_extension_parse_mode(if t.ext_enabled {
            IcmpExtensionParseMode::Enabled
        } else {
            IcmpExtensionParseMode::Disabled
        })
        .read_timeout(Duration::from_nanos(t.read_timeout_ns))
        .tcp_connect_timeout(Duration::from_nanos(t.tcp_connect_timeout_ns))
        .max_rounds(Some(t.rounds as usize))
        .first_ttl(t.first_ttl)
        .max_ttl(t.max_ttl)
        .grace_duration(Duration::from_nanos(t.grace_ns))
        .max_inflight(t.max_inflight)
        .initial_sequence(t.initial_seq)
        .port_direction(ports)
        .min_round_duration(Duration::from_nanos(t.min_round_ns))
        .max_round_duration(Duration::from_nanos(t.max_round_ns))
        .max_samples(t.max_samples)
        .max_flows(t.max_flows)
        .build()
        .map_err(|e| e.to_string())
}

/// A generous upper bound on the socket calls a terminating run of `sc` can make; a run
/// that exceeds it is cut off and reported as not terminating.
#[must_use]
pub fn call_budget(sc: &Scenario) -> u64 {
    let t = &sc.tracer;
    let step = t.read_timeout_ns.max(3 * sc.faults.tick_base_ns).max(1);
    let iters = t.max_round_ns / step + 2;
    let per_iter: u64 = if t.proto == Proto::Tcp { 300 } else { 8 };
    u64::from(t.rounds.max(1)) * (iters + 600) * per_iter * 4 + 100_000
}

/// Run `sc` to completion on the calling thread, drawing run-time decisions from `tape`.
pub fn run_scenario(sc: Scenario, tape: Tape, opts: RunOpts) -> RunRecord {
    let built = build_tracer(&sc);
    run_built(sc, built, tape, opts)
}

/// As `run_scenario`, for a tracer that was built elsewhere (e.g. by the command-line
/// configuration pipeline); `sc.tracer` must describe it.
pub fn run_built(sc: Scenario, built: Result<Tracer, String>, tape: Tape, opts: RunOpts) -> RunRecord {
    install_panic_hook();
    let tick_seed = simcore::mix64(u64::from(sc.tracer.initial_seq) ^ (u64::from(sc.net.ecmp_salt) << 20) ^ 0x71c6);
    let t_start = clock::EPOCH_NS + u64::from(sc.net.ecmp_salt % 1000) * 1_000_003;
    let mut world = World::new(sc.clone(), tape);
    world.call_budget = call_budget(&sc);
    WORLD.with(|w| *w.borrow_mut() = Some(world));
    let rounds: RefCell<Vec<RoundRec>> = RefCell::new(Vec::new());
    let mut final_state = None;
    let mut source_addr = None;
    let end = match built {
        Err(e) => RunEnd::Rejected(e),
        Ok(tracer) => {
            clock::enable(t_start, sc.faults.tick_base_ns.max(1), sc.faults.tick_jitter_ns, tick_seed);
            clock::set_logging(opts.clock_log);
            if let Some(m) = sc.mutation {
                // the enumerated corruption is part of what distinguishes one run from another
                // (logged once the virtual clock is on: event hashes include the time)
                let key = (u64::from(m.field) << 40) | (u64::from(m.value) << 20) | u64::from(m.trunc.map_or(0xfffff, u32::from));
                let cell = simcore::fnv1a(sc.tracer.cell().as_bytes());
                crate::world::with_world(|w| w.ev(30, key ^ cell, 0));
            }
            IN_SIM.with(|c| c.set(true));
            PANIC_INFO.with(|p| *p.borrow_mut() = None);
            let res = catch_unwind(AssertUnwindSafe(|| {
                tracer.verif_run_with::<SimSocket, SimPlatform, _>(|round| {
                    let t_cb = clock::now();
                    let reads_cb = clock::reads();
                    let ticks_total = clock::ticks_total();
                    let snapshot = if opts.snapshots {
                        Some(tracer.snapshot())
                    } else {
                        None
                    };
                    let mut rs = rounds.borrow_mut();
                    let idx = rs.len() as u32;
                    let rec = crate::world::with_world(|w| {
                        let rec = RoundRec {
                            idx,
                            probes: round.probes.to_vec(),
                            largest_ttl: round.largest_ttl.0,
                            reason: round.reason,
                            t_cb,
                            reads_cb,
                            snapshot,
                            attempts_end: w.attempts.len(),
                            wires_end: w.wires.len(),
                            resps_end: w.resps.len(),
                            calls_end: w.call_idx,
                            readable_marks: w.readable_marks,
                            ticks_total,
                        };
                        w.ev(4, u64::from(round.largest_ttl.0) * 10 + u64::from(round.reason == CompletionReason::TargetFound), u64::from(idx));
                        w.on_publish();
                        rec
                    });
                    rs.push(rec);
                })
            }));
            IN_SIM.with(|c| c.set(false));
            let t_end = clock::now();
            clock::disable();
            let end = match res {
                Ok(Ok(())) => RunEnd::Ok,
                Ok(Err(e)) => RunEnd::Err(e.to_string(), format!("{e:?}")),
                Err(_) => RunEnd::Panic(
                    PANIC_INFO
                        .with(|p| p.borrow_mut().take())
                        .unwrap_or_else(|| "unknown panic".to_string()),
                ),
            };
            // the lock may be poisoned-free (parking_lot), so a snapshot is always possible
            if let Ok(s) = catch_unwind(AssertUnwindSafe(|| tracer.snapshot())) {
                final_state = Some(s);
            }
            source_addr = tracer.source_addr();
            let _ = t_end;
            end
        }
    };
    let t_end = clock::now().max(t_start);
    clock::disable();
    let clock_log = clock::log_snapshot();
    let mut world = WORLD.with(|w| w.borrow_mut().take()).expect("world");
    let tape_record = std::mem::take(&mut world.tape.record);
    let calls_total = world.call_idx;
    RunRecord {
        sc,
        rounds: rounds.into_inner(),
        end,
        final_state,
        world,
        clock_log,
        t_start,
        t_end,
        tape_record,
        calls_total,
        source_addr,
    }
}
