//! Execute one scenario: the real `Builder` and `Tracer` over the simulated world.

use crate::clock;
use crate::scenario::{Ports, Proto, Scenario, Strat};
use crate::world::{SimPlatform, SimSocket, World, WORLD};
use simcore::Tape;
use std::cell::RefCell;
use std::panic::{catch_unwind, AssertUnwindSafe};
use std::sync::Once;
use std::time::Duration;
use trippy_core::{
    Builder, CompletionReason, IcmpExtensionParseMode, MultipathStrategy, Port, PortDirection,
    PrivilegeMode, ProbeStatus, Protocol, State, Tracer,
};

thread_local! {
    static PANIC_INFO: RefCell<Option<String>> = const { RefCell::new(None) };
    static IN_SIM: std::cell::Cell<bool> = const { std::cell::Cell::new(false) };
}

static HOOK: Once = Once::new();

/// Install a process-wide panic hook that records the location of panics raised while a
/// simulation is running on the panicking thread (and stays silent for them).
pub fn install_panic_hook() {
    HOOK.call_once(|| {
        let prev = std::panic::take_hook();
        std::panic::set_hook(Box::new(move |info| {
            let in_sim = IN_SIM.try_with(std::cell::Cell::get).unwrap_or(false);
            if in_sim {
                let loc = info
                    .location()
                    .map_or_else(|| "unknown".to_string(), |l| format!("{}:{}", l.file(), l.line()));
                let msg = if let Some(s) = info.payload().downcast_ref::<&str>() {
                    (*s).to_string()
                } else if let Some(s) = info.payload().downcast_ref::<String>() {
                    s.clone()
                } else {
                    "panic".to_string()
                };
                // a failure of the layout solver is attributed to the widget that asked for
                // the split (the panic's own location is inside ratatui, whoever called it)
                let via = if msg.contains("failed to split") {
                    let bt = std::backtrace::Backtrace::force_capture().to_string();
                    if bt.contains("get_columns_widths") {
                        " [via table]".to_string()
                    } else {
                        let site = bt
                            .lines()
                            .find_map(|l| l.split("trippy_tui::frontend::render::").nth(1))
                            .map_or_else(|| "unknown".to_string(), |r| {
                                r.chars().take_while(|c| c.is_alphanumeric() || *c == '_' || *c == ':').collect()
                            });
                        format!(" [via {site}]")
                    }
                } else {
                    String::new()
                };
                let _ = PANIC_INFO.try_with(|p| {
                    if let Ok(mut g) = p.try_borrow_mut() {
                        *g = Some(format!("{loc}: {msg}{via}"));
                    }
                });
            } else {
                prev(info);
            }
        }));
    });
}

/// Mark this thread as running a simulation (panics are recorded silently).
pub fn set_in_sim(on: bool) {
    IN_SIM.with(|c| c.set(on));
    if on {
        PANIC_INFO.with(|p| *p.borrow_mut() = None);
    }
}

/// The location and message of the last panic caught on this thread during a simulation.
pub fn take_panic_info() -> Option<String> {
    PANIC_INFO.with(|p| p.borrow_mut().take())
}

/// One published round as seen by the callback.
#[derive(Debug, Clone)]
pub struct RoundRec {
    pub idx: u32,
    pub probes: Vec<ProbeStatus>,
    pub largest_ttl: u8,
    pub reason: CompletionReason,
    /// Virtual time when the callback ran (no tick consumed).
    pub t_cb: u64,
    /// Number of clock reads served before the callback; the deciding `now` of
    /// `update_round` is read number `reads_cb - 1`.
    pub reads_cb: u64,
    pub snapshot: Option<State>,
    pub attempts_end: usize,
    pub wires_end: usize,
    pub resps_end: usize,
    pub calls_end: u64,
    pub readable_marks: [u64; 3],
    pub ticks_total: u64,
}

/// How a run ended.
#[derive(Debug, Clone, PartialEq, Eq)]
pub enum RunEnd {
    Ok,
    /// `Builder::build` rejected the configuration.
    Rejected(String),
    /// The tracer returned this error (display text, debug text).
    Err(String, String),
    /// The tracer panicked at this location.
    Panic(String),
}

pub struct RunRecord {
    pub sc: Scenario,
    pub rounds: Vec<RoundRec>,
    pub end: RunEnd,
    pub final_state: Option<State>,
    pub world: World,
    pub clock_log: Vec<u64>,
    pub t_start: u64,
    pub t_end: u64,
    pub tape_record: Vec<u32>,
    /// Socket calls made before the tracer reported its end.
    pub calls_total: u64,
    pub source_addr: Option<std::net::IpAddr>,
    /// Length of the tape record when the world took the tape over (generator draws before).
    pub world_tape_start: usize,
    /// Datagrams of the neighbouring tracer that were delivered to this run.
    pub neighbour_datagrams: usize,
}

/// Options of a run that are not part of the scenario.
#[derive(Debug, Clone, Copy)]
pub struct RunOpts {
    pub snapshots: bool,
    pub clock_log: bool,
}

impl Default for RunOpts {
    fn default() -> Self {
        Self {
            snapshots: true,
            clock_log: true,
        }
    }
}

#[must_use]
pub fn build_tracer(sc: &Scenario) -> Result<Tracer, String> {
    let t = &sc.tracer;
    let proto = match t.proto {
        Proto::Icmp => Protocol::Icmp,
        Proto::Udp => Protocol::Udp,
        Proto::Tcp => Protocol::Tcp,
    };
    let strat = match t.strat {
        Strat::Classic => MultipathStrategy::Classic,
        Strat::Paris => MultipathStrategy::Paris,
        Strat::Dublin => MultipathStrategy::Dublin,
    };
    let ports = match t.ports {
        Ports::None => PortDirection::None,
        Ports::FixedSrc(s) => PortDirection::FixedSrc(Port(s)),
        Ports::FixedDest(d) => PortDirection::FixedDest(Port(d)),
        Ports::FixedBoth(s, d) => PortDirection::FixedBoth(Port(s), Port(d)),
    };
    Builder::new(t.target)
        .source_addr(if t.explicit_source { Some(t.source) } else { None })
        .interface(t.interface.clone())
        .protocol(proto)
        .trace_identifier(t.trace_id)
        .privilege_mode(if t.unprivileged {
            PrivilegeMode::Unprivileged
        } else {
            PrivilegeMode::Privileged
        })
        .multipath_strategy(strat)
        .packet_size(t.packet_size)
        .payload_pattern(t.pattern)
        .tos(t.tos)
        .icmp_extension_parse_mode(if t.ext_enabled {
            IcmpExtensionParseMode::Enabled
        } else {
            IcmpExtensionParseMode::Disabled
        })
        .read_timeout(Duration::from_nanos(t.read_timeout_ns))
        .tcp_connect_timeout(Duration::from_nanos(t.tcp_connect_timeout_ns))
        .max_rounds(Some(t.rounds as usize))
        .first_ttl(t.first_ttl)
        .max_ttl(t.max_ttl)
        // u64::MAX stands for "no limit" as a library user would write it: Duration::MAX
        .grace_duration(if t.grace_ns == u64::MAX { Duration::MAX } else { Duration::from_nanos(t.grace_ns) })
        .max_inflight(t.max_inflight)
        .initial_sequence(t.initial_seq)
        .port_direction(ports)
        .min_round_duration(if t.min_round_ns == u64::MAX { Duration::MAX } else { Duration::from_nanos(t.min_round_ns) })
        .max_round_duration(Duration::from_nanos(t.max_round_ns))
        .max_samples(t.max_samples)
        .max_flows(t.max_flows)
        .build()
        .map_err(|e| e.to_string())
}

/// A generous upper bound on the socket calls a terminating run of `sc` can make; a run
/// that exceeds it is cut off and reported as not terminating.
#[must_use]
pub fn call_budget(sc: &Scenario) -> u64 {
    let t = &sc.tracer;
    let step = t.read_timeout_ns.max(3 * sc.faults.tick_base_ns).max(1);
    let iters = t.max_round_ns / step + 2;
    let per_iter: u64 = if t.proto == Proto::Tcp { 300 } else { 8 };
    u64::from(t.rounds.max(1)) * (iters + 600) * per_iter * 4 + 100_000
}

/// Run `sc` to completion on the calling thread, drawing run-time decisions from `tape`.
pub fn run_scenario(sc: Scenario, tape: Tape, opts: RunOpts) -> RunRecord {
    let built = build_tracer(&sc);
    run_built(sc, built, tape, opts)
}

/// As `run_scenario`, for a tracer that was built elsewhere (e.g. by the command-line
/// configuration pipeline); `sc.tracer` must describe it.
pub fn run_built(sc: Scenario, built: Result<Tracer, String>, tape: Tape, opts: RunOpts) -> RunRecord {
    install_panic_hook();
    let tick_seed = simcore::mix64(u64::from(sc.tracer.initial_seq) ^ (u64::from(sc.net.ecmp_salt) << 20) ^ 0x71c6);
    let t_start = clock::EPOCH_NS + u64::from(sc.net.ecmp_salt % 1000) * 1_000_003;
    // a neighbouring tracer runs first (its own world), its received traffic is replayed here
    let stream = match (&built, sc.neighbour) {
        (Ok(_), Some(n)) if sc.synth.is_none() => neighbour_stream(&sc, n),
        _ => Vec::new(),
    };
    let world_tape_start = tape.record.len();
    let mut world = World::new(sc.clone(), tape);
    world.call_budget = call_budget(&sc);
    let neighbour_datagrams = stream.len();
    for (off, bytes, src, responder) in stream {
        world.counters.add("reach.neighbour_datagram", 1);
        world.deliver(crate::world::RespRec {
            id: 0,
            wire_id: None,
            class: crate::world::RespClass::Foreign,
            kind: crate::world::RespKind::Other,
            code: 0,
            responder,
            quoted_tos: None,
            exts: None,
            ambiguous_ext: false,
            rfc4884_len: 0,
            quoted_udp_csum: None,
            t_arrive: t_start + off,
            handed: None,
            bytes: Some(bytes),
            src,
            note: "neighbour-tracer",
            kept: None,
            replay_of_wire: None,
            dgram_len: 0,
            rewritten: (false, false),
        });
    }
    WORLD.with(|w| *w.borrow_mut() = Some(world));
    let rounds: RefCell<Vec<RoundRec>> = RefCell::new(Vec::new());
    let mut final_state = None;
    let mut source_addr = None;
    let end = match built {
        Err(e) => RunEnd::Rejected(e),
        Ok(tracer) => {
            clock::enable(t_start, sc.faults.tick_base_ns.max(1), sc.faults.tick_jitter_ns, tick_seed);
            clock::set_logging(opts.clock_log);
            if let Some(m) = sc.mutation {
                // the enumerated corruption is part of what distinguishes one run from another
                // (logged once the virtual clock is on: event hashes include the time)
                let key = (u64::from(m.field) << 40) | (u64::from(m.value) << 20) | u64::from(m.trunc.map_or(0xfffff, u32::from));
                let cell = simcore::fnv1a(sc.tracer.cell().as_bytes());
                crate::world::with_world(|w| w.ev(30, key ^ cell, 0));
            }
            IN_SIM.with(|c| c.set(true));
            PANIC_INFO.with(|p| *p.borrow_mut() = None);
            let res = catch_unwind(AssertUnwindSafe(|| {
                if let Some(cfg) = sc.synth {
                    synthetic_rounds(&tracer, &sc, cfg, &rounds, opts);
                    return Ok(());
                }
                tracer.verif_run_with::<SimSocket, SimPlatform, _>(|round| {
                    let t_cb = clock::now();
                    let reads_cb = clock::reads();
                    let ticks_total = clock::ticks_total();
                    let snapshot = if opts.snapshots {
                        Some(tracer.snapshot())
                    } else {
                        None
                    };
                    let mut rs = rounds.borrow_mut();
                    let idx = rs.len() as u32;
                    let rec = crate::world::with_world(|w| {
                        let rec = RoundRec {
                            idx,
                            probes: round.probes.to_vec(),
                            largest_ttl: round.largest_ttl.0,
                            reason: round.reason,
                            t_cb,
                            reads_cb,
                            snapshot,
                            attempts_end: w.attempts.len(),
                            wires_end: w.wires.len(),
                            resps_end: w.resps.len(),
                            calls_end: w.call_idx,
                            readable_marks: w.readable_marks,
                            ticks_total,
                        };
                        w.ev(4, u64::from(round.largest_ttl.0) * 10 + u64::from(round.reason == CompletionReason::TargetFound), u64::from(idx));
                        w.on_publish();
                        rec
                    });
                    rs.push(rec);
                    if sc.clear_after_round == Some(idx) {
                        tracer.clear();
                        // the table can be asked at once, before any round has been applied
                        // to the fresh state (the TUI draws its next frame from it)
                        let ok = std::panic::catch_unwind(std::panic::AssertUnwindSafe(|| {
                            let s = tracer.snapshot();
                            let d = State::default_flow_id();
                            let _ = (s.hops().len(), s.target_hop(d).ttl(), s.round_count(d), s.flows().len(), s.is_target(s.target_hop(d), d));
                        }))
                        .is_ok();
                        crate::world::with_world(|w| w.counters.add(if ok { "reach.query_after_clear" } else { "fail.query_after_clear_panicked" }, 1));
                    }
                })
            }));
            IN_SIM.with(|c| c.set(false));
            let t_end = clock::now();
            clock::disable();
            let end = match res {
                Ok(Ok(())) => RunEnd::Ok,
                Ok(Err(e)) => RunEnd::Err(e.to_string(), format!("{e:?}")),
                Err(_) => RunEnd::Panic(
                    PANIC_INFO
                        .with(|p| p.borrow_mut().take())
                        .unwrap_or_else(|| "unknown panic".to_string()),
                ),
            };
            // the lock may be poisoned-free (parking_lot), so a snapshot is always possible
            if let Ok(s) = catch_unwind(AssertUnwindSafe(|| tracer.snapshot())) {
                final_state = Some(s);
            }
            source_addr = tracer.source_addr();
            let _ = t_end;
            end
        }
    };
    let t_end = clock::now().max(t_start);
    clock::disable();
    let clock_log = clock::log_snapshot();
    let mut world = WORLD.with(|w| w.borrow_mut().take()).expect("world");
    let tape_record = std::mem::take(&mut world.tape.record);
    let calls_total = world.call_idx;
    RunRecord {
        sc,
        rounds: rounds.into_inner(),
        end,
        final_state,
        world,
        clock_log,
        t_start,
        t_end,
        tape_record,
        calls_total,
        source_addr,
        world_tape_start,
        neighbour_datagrams,
    }
}

/// Run the neighbouring tracer alone over the same simulated network and return what its
/// receive socket was handed: (arrival offset from its start, datagram, source, responder).
/// Its decisions come from a tape derived from the scenario, so the stream is a function
/// of the scenario alone.
fn neighbour_stream(sc: &Scenario, n: crate::scenario::NeighbourCfg) -> Vec<(u64, Vec<u8>, Option<std::net::SocketAddr>, std::net::IpAddr)> {
    let mut b = sc.clone();
    b.neighbour = None;
    b.record_rx = true;
    b.alone_equal = false;
    b.clear_after_round = None;
    b.inject = crate::scenario::InjectCfg::default();
    b.faults.sock_pm = 0;
    b.faults.addr_in_use_pm = 0;
    b.faults.scripted.clear();
    b.mutation = None;
    b.sniff = false;
    let id = sc.tracer.trace_id.wrapping_add(n.id_delta);
    b.tracer.trace_id = if id == 0 { 1 } else { id };
    if n.other_target {
        b.tracer.target = crate::scenario::other_target(sc.tracer.v6);
    }
    let seed = simcore::mix64(u64::from(sc.tracer.trace_id) ^ (u64::from(sc.tracer.initial_seq) << 16) ^ (u64::from(sc.net.ecmp_salt) << 32) ^ 0x6e65_6967);
    let rec = run_scenario(b, Tape::from_seed(seed), RunOpts { snapshots: false, clock_log: false });
    let mut out = Vec::new();
    for r in &rec.world.resps {
        if r.handed.is_none() {
            continue;
        }
        let Some(bytes) = r.kept.clone() else { continue };
        out.push((r.t_arrive.saturating_sub(rec.t_start) + n.start_offset_ns, bytes, r.src, r.responder));
    }
    out
}

/// Synthetic round source: draw `cfg.rounds` rounds from the tape and hand each to the real
/// round handler of the tracer (the strategy, channel and network do not run).
///
/// The rounds keep to the shape the strategy can publish: positions carry consecutive
/// time-to-live values from first-ttl, a skipped slot (abandoned TCP attempt) precedes the
/// probe that was re-issued with the same ttl, and the round's path length is the largest
/// ttl that was answered (zero when nothing was).
fn synthetic_rounds(tracer: &Tracer, sc: &Scenario, cfg: crate::scenario::SynthCfg, rounds: &RefCell<Vec<RoundRec>>, opts: RunOpts) {
    use crate::scenario::router_addr;
    use crate::world::with_world;
    use std::time::{Duration, UNIX_EPOCH};
    use trippy_core::verif::{Checksum, IcmpPacketCode, ProbeFailed};
    use trippy_core::{Flags, IcmpPacketType, Probe, ProbeComplete, Round, RoundId, Sequence, TimeToLive, TraceId, TypeOfService};
    let t = &sc.tracer;
    let base = UNIX_EPOCH + Duration::from_nanos(clock::EPOCH_NS);
    let mut seq: u16 = t.initial_seq;
    let mut len_now: u32 = 0;
    for k in 0..cfg.rounds {
        let probes: Vec<ProbeStatus> = with_world(|w| {
            let tape = &mut w.tape;
            let span = u32::from(t.max_ttl - t.first_ttl) + 1;
            let cap = u32::from(cfg.max_len).min(span).max(1);
            // the path length moves slowly; sometimes it shrinks or jumps
            if len_now == 0 || tape.chance(150) {
                len_now = 1 + tape.draw(cap);
            }
            let mut len = len_now;
            if tape.chance(cfg.shrink_pm) {
                len = 1 + tape.draw(len);
            }
            let mut out = Vec::new();
            for i in 0..len {
                let ttl = t.first_ttl + i as u8;
                while tape.chance(cfg.skipped_pm) && out.len() < 500 {
                    out.push(ProbeStatus::Skipped);
                    seq = seq.wrapping_add(1);
                }
                let sent = base + Duration::from_secs(u64::from(k)) + Duration::from_micros(u64::from(i) * 37);
                let (sp, dp) = (t.trace_id, seq);
                let flags = Flags::empty();
                match tape.weighted(&[cfg.w_complete, cfg.w_awaited, cfg.w_failed]) {
                    0 => {
                        let rtt_ns: u64 = match cfg.rtt_regime {
                            0 => u64::from(tape.draw(1000)),
                            1 => 10_000 + u64::from(tape.skewed(300_000)) * 1000,
                            2 => match tape.weighted(&[2, 2, 2, 6]) {
                                0 => 0,
                                1 => 1,
                                2 => 10_000_000_000,
                                _ => u64::from(tape.draw(1_000_000)) * u64::from(1 + tape.draw(10_000)),
                            },
                            _ => 5_000_000,
                        };
                        let variant = if cfg.addr_pool > 1 { tape.draw(u32::from(cfg.addr_pool)) } else { 0 };
                        let host = router_addr(t.v6, u32::from(ttl), 0, variant);
                        let icmp_packet_type = match tape.weighted(&[6, 2, 1, 1]) {
                            0 => IcmpPacketType::TimeExceeded(IcmpPacketCode(0)),
                            1 => IcmpPacketType::EchoReply(IcmpPacketCode(0)),
                            2 => IcmpPacketType::Unreachable(IcmpPacketCode(tape.draw(16) as u8)),
                            _ => IcmpPacketType::NotApplicable,
                        };
                        let csum = if tape.chance(300) {
                            let e = tape.draw(65536) as u16;
                            let a = if tape.chance(600) { e } else { tape.draw(65536) as u16 };
                            Some((e, a))
                        } else {
                            None
                        };
                        out.push(ProbeStatus::Complete(ProbeComplete {
                            sequence: Sequence(seq),
                            identifier: TraceId(t.trace_id),
                            src_port: Port(sp),
                            dest_port: Port(dp),
                            ttl: TimeToLive(ttl),
                            round: RoundId(k as usize),
                            sent,
                            host,
                            received: sent + Duration::from_nanos(rtt_ns),
                            icmp_packet_type,
                            tos: if tape.chance(500) { Some(TypeOfService(tape.draw(256) as u8)) } else { None },
                            expected_udp_checksum: csum.map(|c| Checksum(c.0)),
                            actual_udp_checksum: csum.map(|c| Checksum(c.1)),
                            extensions: None,
                        }));
                    }
                    1 => out.push(ProbeStatus::Awaited(Probe {
                        sequence: Sequence(seq),
                        identifier: TraceId(t.trace_id),
                        src_port: Port(sp),
                        dest_port: Port(dp),
                        ttl: TimeToLive(ttl),
                        round: RoundId(k as usize),
                        sent,
                        flags,
                    })),
                    _ => out.push(ProbeStatus::Failed(ProbeFailed {
                        sequence: Sequence(seq),
                        identifier: TraceId(t.trace_id),
                        src_port: Port(sp),
                        dest_port: Port(dp),
                        ttl: TimeToLive(ttl),
                        round: RoundId(k as usize),
                        sent,
                    })),
                }
                seq = seq.wrapping_add(1);
            }
            w.counters.add("reach.synthetic_round", 1);
            out
        });
        let largest = probes
            .iter()
            .filter_map(|p| match p {
                ProbeStatus::Complete(c) => Some(c.ttl.0),
                _ => None,
            })
            .max()
            .unwrap_or(0);
        let reason = if k % 3 == 0 { CompletionReason::TargetFound } else { CompletionReason::RoundTimeLimitExceeded };
        let round = Round::new(&probes, TimeToLive(largest), reason);
        tracer.verif_apply_round(&round);
        // snapshots: every round at first, then sparsely (the reference is advanced for all)
        let want = opts.snapshots && (cfg.dense || k < 24 || k % 41 == 0 || k + 1 == cfg.rounds);
        let snapshot = if want { Some(tracer.snapshot()) } else { None };
        let idx = k;
        let rec = with_world(|w| {
            w.ev(4, u64::from(largest) * 10 + u64::from(reason == CompletionReason::TargetFound), u64::from(idx));
            let mut h = simcore::Fnv::default();
            for p in &probes {
                match p {
                    ProbeStatus::Complete(c) => {
                        h.u8(1);
                        h.u8(c.ttl.0);
                    }
                    ProbeStatus::Awaited(a) => {
                        h.u8(2);
                        h.u8(a.ttl.0);
                    }
                    ProbeStatus::Failed(f) => {
                        h.u8(3);
                        h.u8(f.ttl.0);
                    }
                    _ => h.u8(4),
                }
            }
            w.ev(5, h.finish() & 0xffff_ffff, 0);
            w.round_idx += 1;
            RoundRec {
                idx,
                probes: probes.clone(),
                largest_ttl: largest,
                reason,
                t_cb: clock::now(),
                reads_cb: clock::reads(),
                snapshot,
                attempts_end: 0,
                wires_end: 0,
                resps_end: 0,
                calls_end: 0,
                readable_marks: [0; 3],
                ticks_total: 0,
            }
        });
        rounds.borrow_mut().push(rec);
    }
}
