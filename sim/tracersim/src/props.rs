//! Registry: which scenario families and oracles decide which property.

use crate::check::{Family, PropertyCheck};
use crate::gen::{gen_scenario, Profile};
use crate::oracle;
use crate::run::RunOpts;
use crate::scenario::Scenario;
use simcore::Tape;

fn opts_full() -> RunOpts {
    RunOpts { snapshots: true, clock_log: true }
}

fn opts_light() -> RunOpts {
    RunOpts { snapshots: false, clock_log: true }
}

fn g_base(t: &mut Tape) -> Scenario {
    gen_scenario(t, &Profile::base())
}

fn g_quiet(t: &mut Tape) -> Scenario {
    // fault-free configuration: run separately so that oracle relaxations under faults
    // never hide an ordinary bug
    let mut p = Profile::base();
    p.delivery_faults = false;
    p.late = false;
    p.stalls = false;
    p.hop_kinds = false;
    p.target_kinds = false;
    p.route_change = false;
    p.unreachable_hops = false;
    gen_scenario(t, &p)
}

fn g_quiet_change(t: &mut Tape) -> Scenario {
    // quiet, lossless network whose path may change once; rounds long enough for every
    // probe up to the target to be sent and answered
    let mut p = Profile::base();
    p.delivery_faults = false;
    p.late = false;
    p.stalls = false;
    p.hop_kinds = false;
    p.target_kinds = false;
    p.unreachable_hops = false;
    p.ecmp = false;
    p.route_change = false;
    p.max_path = 24;
    p.max_rounds = 8;
    let mut sc = gen_scenario(t, &p);
    let v6 = sc.tracer.v6;
    if t.chance(700) {
        let old_len = sc.net.paths[0].routers.len() as u32;
        let new_len = match t.pick(3) {
            0 => old_len + 1 + t.draw(6),
            1 => old_len.saturating_sub(1 + t.draw(4)),
            _ => t.draw(24),
        };
        let routers = (1..=new_len)
            .map(|h| {
                let mut r = sc.net.paths[0].routers.first().cloned().unwrap_or(crate::scenario::RouterCfg {
                    addr: crate::scenario::router_addr(v6, h, 0, 1),
                    silent: false,
                    rate_limit: 1,
                    duplicate: false,
                    extra_delay_ns: 0,
                    quote: crate::scenario::Quote::Min8,
                    layout: crate::wire::ErrorLayout::Plain,
                    quoted_ttl: 1,
                    tos_rewrite: None,
                    nat: None,
                    unreachable_code: None,
                });
                r.addr = crate::scenario::router_addr(v6, h, 0, 1);
                r
            })
            .collect();
        let at = 1 + t.draw(3);
        sc.net.route_change = Some((at, vec![crate::scenario::PathCfg { routers }]));
        sc.tracer.rounds = sc.tracer.rounds.max(at + 3);
    }
    let dmax = sc
        .net
        .route_change
        .as_ref()
        .map_or(0, |(_, p)| p[0].routers.len())
        .max(sc.net.paths[0].routers.len()) as u64
        + 1;
    let ms = 1_000_000u64;
    sc.tracer.read_timeout_ns = ms;
    sc.tracer.first_ttl = 1 + t.draw(3) as u8;
    sc.tracer.max_ttl = sc.tracer.max_ttl.max((dmax + 2).min(254) as u8);
    let rtt = 2 * dmax * sc.net.hop_delay_ns;
    let need = 4 * (dmax + 4) * (sc.tracer.read_timeout_ns + rtt);
    sc.tracer.max_round_ns = sc.tracer.max_round_ns.max(need);
    sc.tracer.min_round_ns = sc.tracer.min_round_ns.min(sc.tracer.max_round_ns);
    sc.tracer.tcp_connect_timeout_ns = sc.tracer.tcp_connect_timeout_ns.max(2 * sc.tracer.max_round_ns);
    sc.net.jitter_ns = 0;
    sc.faults.tick_base_ns = sc.faults.tick_base_ns.clamp(50, 1000);
    sc.stable = sc.net.route_change.is_none();
    sc.epoch_liveness = true;
    sc
}

fn g_sockfaults(t: &mut Tape) -> Scenario {
    let mut p = Profile::base();
    p.sock_faults = true;
    p.addr_in_use = true;
    p.max_rounds = 6;
    gen_scenario(t, &p)
}

fn g_timing(t: &mut Tape) -> Scenario {
    let mut p = Profile::base();
    p.wide_timing = true;
    p.stalls = false;
    p.max_path = 16;
    let mut sc = gen_scenario(t, &p);
    // "no limit" written as the largest duration there is (grace, or the minimum round time)
    if t.chance(30) {
        if t.chance(500) {
            sc.tracer.grace_ns = u64::MAX;
        } else {
            sc.tracer.min_round_ns = u64::MAX;
        }
    }
    sc
}

fn g_timing_stalls(t: &mut Tape) -> Scenario {
    let mut p = Profile::base();
    p.wide_timing = true;
    p.stalls = true;
    p.max_path = 16;
    gen_scenario(t, &p)
}

/// C08: unrelated ICMP traffic trickles in all through the run, at intervals around one read
/// timeout, so that some of it arrives while a round only waits for its deadline: traffic the
/// tracer has no use for must not buy the round more time.
fn g_timing_chatter(t: &mut Tape) -> Scenario {
    let mut sc = g_timing(t);
    let rt = sc.tracer.read_timeout_ns.max(10_000);
    sc.tracer.rounds = sc.tracer.rounds.min(5);
    sc.tracer.max_round_ns = sc.tracer.max_round_ns.min(rt * 60);
    sc.tracer.min_round_ns = sc.tracer.min_round_ns.min(sc.tracer.max_round_ns);
    sc.inject.chatter_gap_ns = rt / 3 + u64::from(t.draw((rt * 5 / 3 / 1000).max(1) as u32)) * 1000;
    sc.stable = false;
    sc
}

fn g_inject(t: &mut Tape) -> Scenario {
    let mut p = Profile::base();
    p.inject = true;
    p.max_rounds = 10;
    gen_scenario(t, &p)
}

fn g_inject_quiet(t: &mut Tape) -> Scenario {
    // adversarial deliveries on an otherwise fault-free network
    let mut p = Profile::base();
    p.inject = true;
    p.delivery_faults = false;
    p.late = false;
    p.stalls = false;
    p.hop_kinds = false;
    p.route_change = false;
    p.max_rounds = 10;
    gen_scenario(t, &p)
}

fn g_lossless(t: &mut Tape) -> Scenario {
    // every hop answers exactly once per probe, in every quoting / extension shape
    let mut p = Profile::base();
    p.delivery_faults = false;
    p.late = false;
    p.stalls = false;
    p.hop_kinds = false;
    p.target_kinds = false;
    p.max_rounds = 6;
    gen_scenario(t, &p)
}

/// Cells the builder accepts although the command line rejects them: Paris / Dublin in
/// unprivileged mode (the non-raw UDP path ignores the strategy's probe flags).
fn g_unpriv_multipath(t: &mut Tape) -> Scenario {
    use crate::gen::Cell;
    use crate::scenario::{Proto, Strat};
    let mut p = Profile::base();
    p.delivery_faults = false;
    p.late = false;
    p.stalls = false;
    p.hop_kinds = false;
    p.target_kinds = false;
    p.max_rounds = 3;
    p.max_path = 8;
    p.cells = [Strat::Paris, Strat::Dublin]
        .into_iter()
        .flat_map(|strat| (1..=3).map(move |ports| Cell { proto: Proto::Udp, strat, ports, unprivileged: true }))
        .collect();
    gen_scenario(t, &p)
}

fn g_foreign(t: &mut Tape) -> Scenario {
    let mut p = Profile::base();
    p.inject = true;
    p.delivery_faults = false;
    p.late = false;
    p.max_rounds = 6;
    let mut sc = gen_scenario(t, &p);
    sc.inject.never_sent_pm = 0;
    sc.inject.replay_prev_round_pm = 0;
    sc.inject.unrelated_pm = 0;
    sc.inject.foreign_pm = sc.inject.foreign_pm.max(300);
    sc.inject.icmp_other_destination = true;
    sc
}

/// Long rounds that sweep the sequence space: every hop of a 253-router path answers.
fn sweep(t: &mut Tape, full: bool) -> Scenario {
    use crate::gen::executable_cells;
    use crate::scenario::*;
    use crate::wire::ErrorLayout;
    let cells = executable_cells();
    let cell = cells[t.pick(cells.len())];
    let v6 = t.chance(500);
    let len = if full { 253 } else { 40 + t.draw(214) };
    let routers: Vec<RouterCfg> = (1..=len)
        .map(|h| RouterCfg {
            addr: router_addr(v6, h, 0, 0),
            silent: false,
            rate_limit: 1,
            duplicate: false,
            extra_delay_ns: 0,
            quote: if h % 3 == 0 { Quote::Full } else { Quote::Min8 },
            layout: ErrorLayout::Plain,
            quoted_ttl: (h % 2) as u8,
            tos_rewrite: None,
            nat: None,
            unreachable_code: None,
        })
        .collect();
    let fixed = 1024 + t.draw(60000) as u16;
    let ports = match cell.ports {
        0 => Ports::None,
        1 => Ports::FixedSrc(fixed),
        2 => Ports::FixedDest(fixed),
        _ => Ports::FixedBoth(fixed, 33000 + t.draw(1000) as u16),
    };
    let initial_seq = if full { 0 } else { t.draw(64512) as u16 };
    let rounds = if full { 262 } else { 4 + t.draw(12) };
    let ms = 1_000_000u64;
    Scenario {
        tracer: TracerCfg {
            v6,
            proto: cell.proto,
            strat: cell.strat,
            ports,
            unprivileged: cell.unprivileged,
            ext_enabled: t.chance(500),
            first_ttl: 1,
            max_ttl: 254,
            max_inflight: 255,
            initial_seq,
            packet_size: if v6 { 48 + t.draw(200) as u16 } else { 28 + t.draw(200) as u16 },
            pattern: t.draw(256) as u8,
            tos: t.draw(256) as u8,
            trace_id: 1 + t.draw(65535) as u16,
            rounds,
            min_round_ns: 0,
            max_round_ns: 400 * ms,
            grace_ns: 0,
            read_timeout_ns: ms,
            tcp_connect_timeout_ns: 5 * ms,
            max_samples: 4,
            max_flows: 4,
            explicit_source: false,
            interface: None,
            source: default_source(v6),
            target: default_target(v6),
        },
        net: NetCfg {
            paths: vec![PathCfg { routers }],
            route_change: None,
            target: TargetCfg {
                behaviour: TargetBehaviour::Normal,
                reply_from: None,
                tcp_open: t.chance(500),
                tcp_reject_code: None,
                quote: Quote::Min8,
                layout: ErrorLayout::Plain,
            },
            probe_loss_pm: 0,
            resp_loss_pm: 0,
            dup_pm: 0,
            extra_delay_pm: 0,
            late_pm: 0,
            hop_delay_ns: 2_000,
            jitter_ns: 0,
            ecmp_salt: t.draw(1_000_000),
            ip_options: None,
        },
        inject: InjectCfg::default(),
        faults: FaultCfg {
            sock_pm: 0,
            sock_benign_pm: 0,
            scripted: Vec::new(),
            stall_pm: 0,
            stall_max_ns: 0,
            addr_in_use_pm: 0, addr_in_use_from_round: 0, addr_in_use_udp: false, addr_in_use_burst: None, wall_clock_back: None,
            tick_base_ns: 50,
            tick_jitter_ns: 0,
        },
        stable: true,
        light: true,
        mutation: None,
        sniff: false,
        epoch_liveness: false,
        synth: None,
        neighbour: None,
        record_rx: false,
        alone_equal: false,
        clear_after_round: None,
    }
}

fn g_sweep_sample(t: &mut Tape) -> Scenario {
    sweep(t, false)
}

fn g_sweep_full(t: &mut Tape) -> Scenario {
    sweep(t, true)
}

/// Long runs of short rounds from boundary initial sequences (sequence wrap, TCP port
/// collision storms, capacity exhaustion).
fn g_long(t: &mut Tape) -> Scenario {
    let mut p = Profile::base();
    p.boundary_sequences = true;
    p.addr_in_use = true;
    p.wide_ttl = false;
    p.max_path = 8;
    p.route_change = false;
    p.extensions = false;
    p.inject = false;
    let mut sc = gen_scenario(t, &p);
    let ms = 1_000_000u64;
    sc.tracer.rounds = 50 + t.skewed(1500);
    sc.tracer.max_round_ns = (1 + u64::from(t.draw(6))) * ms;
    sc.tracer.min_round_ns = 0;
    sc.tracer.grace_ns = 0;
    sc.tracer.read_timeout_ns = ms / 2;
    sc.tracer.tcp_connect_timeout_ns = 3 * ms;
    sc.net.hop_delay_ns = 10_000 + u64::from(t.draw(100)) * 1000;
    sc.net.late_pm = 0;
    sc.net.extra_delay_pm = 0;
    sc.faults.stall_pm = 0;
    sc.faults.tick_base_ns = 200;
    sc.faults.tick_jitter_ns = 0;
    // previous-round responses are re-delivered in the next round
    sc.inject.replay_prev_round_pm = if t.chance(700) { 1000 } else { 0 };
    sc.tracer.initial_seq = match t.weighted(&[30, 30, 20, 20]) {
        0 => 64511,
        1 => 63000 + t.draw(1512) as u16,
        2 => 64511 - t.draw(300) as u16,
        _ => t.draw(64512) as u16,
    };
    if sc.tracer.max_ttl < 30 {
        sc.tracer.max_ttl = 30;
    }
    // unprivileged UDP binds a socket per probe: a busy port there ends the trace with an
    // error - also when whole blocks of ports are busy from some round on
    if sc.tracer.proto == crate::scenario::Proto::Udp && sc.tracer.unprivileged && t.chance(500) {
        sc.faults.addr_in_use_udp = true;
        sc.faults.addr_in_use_pm = [1000u32, 950, 300][t.pick(3)];
        sc.faults.addr_in_use_from_round = t.draw(6);
    }
    sc.stable = false;
    sc.light = true;
    sc
}

/// C10: the state is cleared in the middle of a trace (the TUI's clear-trace-data), often with a
/// path that is shorter afterwards: the table covers the rounds since the clear only.
fn g_clear_midway(t: &mut Tape) -> Scenario {
    let mut p = Profile::base();
    p.max_rounds = 8;
    p.max_path = 16;
    let mut sc = gen_scenario(t, &p);
    sc.tracer.rounds = sc.tracer.rounds.max(3);
    let at = t.draw(sc.tracer.rounds - 1);
    sc.clear_after_round = Some(at);
    if t.chance(600) {
        // the path shrinks at the round after the clear
        let paths: Vec<crate::scenario::PathCfg> = sc
            .net
            .paths
            .iter()
            .map(|p| {
                let mut q = p.clone();
                let keep = 1 + t.draw(q.routers.len().max(1) as u32) as usize;
                q.routers.truncate(keep.min(q.routers.len()));
                q
            })
            .collect();
        sc.net.route_change = Some((at + 1, paths));
    }
    sc.stable = false;
    sc.epoch_liveness = false;
    sc
}

/// C07: a TCP collision storm of exact length on a silent network, so that the round's 512th
/// sequence number goes to a probe that is really sent: if the round then wants another probe
/// the trace must end with the capacity error; if that probe was the last one (max-ttl) the
/// trace goes on.  The storm may start at the first ttl or after a few probes.
fn g_capacity_boundary(t: &mut Tape) -> Scenario {
    use crate::scenario::{Ports, Proto, Strat, TargetBehaviour};
    let mut sc = fault_enum_base(t.draw(2));
    let ms = 1_000_000u64;
    sc.tracer.proto = Proto::Tcp;
    sc.tracer.strat = Strat::Classic;
    sc.tracer.ports = Ports::FixedDest(80);
    sc.tracer.unprivileged = false;
    sc.tracer.initial_seq = 33_434 + t.draw(20_000) as u16;
    sc.tracer.first_ttl = 1;
    sc.tracer.max_inflight = 254;
    sc.tracer.rounds = 3;
    sc.tracer.min_round_ns = 0;
    sc.tracer.max_round_ns = 40 * ms;
    sc.tracer.grace_ns = 0;
    sc.tracer.read_timeout_ns = ms / 50;
    sc.tracer.tcp_connect_timeout_ns = ms / 2;
    sc.net.target.behaviour = TargetBehaviour::Silent;
    for path in &mut sc.net.paths {
        for r in &mut path.routers {
            r.silent = true;
        }
    }
    // `sent` probes get out in the storm round, the last of them under offset 511 (or one
    // before / after it: neither may raise the error early or run past the buffer)
    let sent = 1 + t.draw(8);
    let skip = t.draw(sent);
    let len = match t.pick(4) {
        0 => 511 - sent,
        1 => 513 - sent,
        _ => 512 - sent,
    };
    sc.tracer.max_ttl = if t.chance(500) { sent as u8 } else { (sent + 1 + t.draw(6)) as u8 };
    sc.faults.addr_in_use_burst = Some((skip, len));
    sc.faults.addr_in_use_from_round = t.draw(2);
    sc.faults.tick_base_ns = 1_000;
    sc.light = true;
    sc.stable = false;
    sc.epoch_liveness = false;
    sc
}

/// C07: initial sequences at and above the documented maximum (64511), in every executable
/// configuration and address family: above it the builder refuses, at it the rounds run and
/// restart without ever re-issuing a number of the preceding round.
fn g_seq_limit(t: &mut Tape) -> Scenario {
    let mut sc = fault_enum_base(t.draw(fe_cfgs()));
    sc.tracer.initial_seq = [64_510u16, 64_511, 64_512, 65_000, 65_023, 65_024, 65_534, 65_535][t.draw(8) as usize];
    sc.tracer.rounds = 4;
    sc.stable = false;
    sc
}

fn seq_limit_dims(_tier: &str) -> Vec<u32> {
    vec![fe_cfgs(), 8]
}

/// C06: the long runs of C07, kept clear of the open finding `c07.wrap-overlap` (TCP re-issue
/// storms next to the largest initial sequence make consecutive rounds share numbers, and a
/// re-delivered response of the preceding round then counts as an answer: the window moves
/// on an answer that was none) - that corner is C07's to report, as in C03's `inject-long`.
fn g_long_sched(t: &mut Tape) -> Scenario {
    let mut sc = g_long(t);
    if sc.tracer.proto == crate::scenario::Proto::Tcp {
        sc.tracer.initial_seq = sc.tracer.initial_seq.min(63_999);
    }
    sc
}

/// C06: a quiet, stable path traced long enough for the sequence to restart (an initial
/// sequence close to the maximum, or the Dublin/IPv6 regime that restarts every 512 numbers):
/// what the tracer has learnt about the target's distance outlives the restart.
fn g_stable_wrap(t: &mut Tape) -> Scenario {
    let mut sc = g_quiet(t);
    let ms = 1_000_000u64;
    sc.tracer.initial_seq = 64_511 - t.draw(300) as u16;
    sc.tracer.rounds = 120 + t.draw(120);
    sc.tracer.max_round_ns = sc.tracer.max_round_ns.min(30 * ms);
    sc.tracer.min_round_ns = sc.tracer.min_round_ns.min(sc.tracer.max_round_ns);
    sc.tracer.grace_ns = sc.tracer.grace_ns.min(2 * ms);
    sc.tracer.read_timeout_ns = sc.tracer.read_timeout_ns.min(ms);
    sc
}

/// C16: an accepted configuration keeps running: more than a thousand one-probe rounds from
/// the largest initial sequence the builder accepts, in every executable configuration and
/// address family (whatever is counted per round gets past 65535 on the way).
fn g_many_rounds(t: &mut Tape) -> Scenario {
    use crate::scenario::TargetBehaviour;
    let mut sc = fault_enum_base(t.draw(fe_cfgs()));
    sc.tracer.initial_seq = 64_511;
    sc.tracer.first_ttl = 1;
    sc.tracer.max_ttl = 1;
    sc.tracer.rounds = 1_040 + t.draw(2) * 30;
    sc.tracer.min_round_ns = 0;
    sc.tracer.max_round_ns = 50_000;
    sc.tracer.grace_ns = 0;
    sc.tracer.read_timeout_ns = 10_000;
    sc.tracer.tcp_connect_timeout_ns = 200_000;
    sc.net.target.behaviour = TargetBehaviour::Silent;
    for path in &mut sc.net.paths {
        for r in &mut path.routers {
            r.silent = true;
        }
    }
    sc.faults.tick_base_ns = 1_000;
    sc.light = true;
    sc.stable = false;
    sc.epoch_liveness = false;
    sc
}

fn many_rounds_dims(_tier: &str) -> Vec<u32> {
    vec![fe_cfgs(), 2]
}

/// C01/C02: TCP over a path whose routers stay silent, short rounds and a connect timeout of
/// seconds: the connections of unanswered probes pile up past the 256 the tracer keeps, while
/// the target goes on answering; every answer is still reported for the probe it answers.
fn g_tcp_backlog(t: &mut Tape) -> Scenario {
    use crate::scenario::{Ports, Proto, Strat};
    let mut sc = fault_enum_base(t.draw(2));
    let ms = 1_000_000u64;
    sc.tracer.proto = Proto::Tcp;
    sc.tracer.strat = Strat::Classic;
    sc.tracer.ports = if t.chance(500) { Ports::FixedDest(80) } else { Ports::FixedSrc(5000) };
    sc.tracer.unprivileged = false;
    sc.tracer.initial_seq = 33_434 + t.draw(20_000) as u16;
    sc.tracer.max_ttl = 12;
    sc.tracer.rounds = 70 + t.draw(60);
    sc.tracer.min_round_ns = 0;
    sc.tracer.max_round_ns = (1 + u64::from(t.draw(3))) * ms;
    sc.tracer.grace_ns = ms / 10;
    sc.tracer.read_timeout_ns = ms / 10;
    sc.tracer.tcp_connect_timeout_ns = 10_000 * ms;
    let hops = 4 + t.draw(5);
    let v6 = sc.tracer.v6;
    let template = sc.net.paths[0].routers[0].clone();
    sc.net.paths[0].routers = (1..=hops)
        .map(|h| {
            let mut r = template.clone();
            r.addr = crate::scenario::router_addr(v6, h, 0, 0);
            r.silent = true;
            r
        })
        .collect();
    sc.net.target.tcp_open = t.chance(500);
    sc.stable = false;
    sc.epoch_liveness = false;
    sc
}

/// C10: the far end of the ttl range - first-ttl 230..=252 on a path that is a little longer,
/// max-ttl 254, the default window or the largest one: the table starts at first-ttl and ends
/// at the target.
fn g_far_end_ttl(t: &mut Tape) -> Scenario {
    let mut sc = fault_enum_base(t.draw(fe_cfgs()));
    let first = 230 + t.draw(23);
    let dist = (first + 1 + t.draw(2)).min(254);
    sc.tracer.first_ttl = first as u8;
    sc.tracer.max_ttl = 254;
    sc.tracer.max_inflight = [24u8, 255, 200, 1][t.draw(4) as usize];
    sc.tracer.rounds = 3;
    let v6 = sc.tracer.v6;
    let template = sc.net.paths[0].routers[0].clone();
    sc.net.paths[0].routers = (1..dist)
        .map(|h| {
            let mut r = template.clone();
            r.addr = crate::scenario::router_addr(v6, h, 0, 0);
            r.silent = false;
            r
        })
        .collect();
    sc.stable = true;
    sc
}

fn far_end_dims(_tier: &str) -> Vec<u32> {
    vec![fe_cfgs(), 23, 2, 4]
}

/// C05: the state is cleared in the middle of a trace with many short rounds; the figures
/// that follow are those of the rounds since the clear, under the configured limits (a
/// sample limit of 1 or 2 in half of the runs, and never equal to the flow limit).
fn g_clear_stats(t: &mut Tape) -> Scenario {
    let mut sc = g_stats(t);
    sc.tracer.rounds = sc.tracer.rounds.clamp(4, 60);
    sc.clear_after_round = Some(t.draw(sc.tracer.rounds - 2));
    if t.chance(500) {
        sc.tracer.max_samples = 1 + t.draw(2) as usize;
    }
    if sc.tracer.max_samples == sc.tracer.max_flows {
        sc.tracer.max_flows += 1;
    }
    sc.stable = false;
    sc.epoch_liveness = false;
    sc
}

/// C15: the state is cleared in the middle of a multi-path trace: identifiers are issued
/// from 1 again and every flow counts the rounds since the clear only.
fn g_clear_flows(t: &mut Tape) -> Scenario {
    let mut sc = g_flows(t);
    sc.tracer.rounds = sc.tracer.rounds.clamp(4, 40);
    sc.clear_after_round = Some(t.draw(sc.tracer.rounds - 2));
    sc.stable = false;
    sc.epoch_liveness = false;
    sc
}

/// C07: one whole cycle of the sequence space from a tiny initial sequence - 254 probes per
/// round on a silent network, some 260 rounds - so that the restart is seen to land on the
/// configured initial sequence exactly.
fn g_full_cycle(t: &mut Tape) -> Scenario {
    use crate::scenario::TargetBehaviour;
    let mut sc = fault_enum_base(t.draw(fe_cfgs()));
    let ms = 1_000_000u64;
    sc.tracer.initial_seq = [0u16, 1, 2, 7, 255, 256][t.pick(6)];
    sc.tracer.first_ttl = 1;
    sc.tracer.max_ttl = 254;
    sc.tracer.max_inflight = 254;
    sc.tracer.rounds = 258 + t.draw(6);
    // every round must get all of its 254 probes out: one loop iteration per probe, each with
    // a readiness poll that times out
    sc.tracer.min_round_ns = 0;
    sc.tracer.max_round_ns = 30 * ms;
    sc.tracer.grace_ns = 0;
    sc.tracer.read_timeout_ns = ms / 50;
    sc.tracer.tcp_connect_timeout_ns = ms / 2;
    sc.net.target.behaviour = TargetBehaviour::Silent;
    for path in &mut sc.net.paths {
        for r in &mut path.routers {
            r.silent = true;
        }
    }
    sc.faults.tick_base_ns = 2_000;
    sc.light = true;
    sc.stable = false;
    sc
}

/// C07, boundary walk: a TCP trace on a quiet path is first run as a pilot to learn how many
/// sequence numbers each round consumes; the initial sequence is then chosen so that a
/// chosen round starts exactly at a value next to the restart limit (65020..65027), and
/// from that round on every bind collides, so that the round uses its whole budget of 512.
fn g_wrap_aligned(t: &mut Tape) -> Scenario {
    use crate::gen::executable_cells;
    use crate::scenario::Proto;
    let cells = executable_cells();
    let tcp: Vec<usize> = cells.iter().enumerate().filter(|(_, c)| c.proto == Proto::Tcp).map(|(i, _)| i).collect();
    let cell = tcp[t.pick(tcp.len())];
    let v6 = t.chance(500);
    let mut sc = fault_enum_base(cell as u32 * 2 + u32::from(v6));
    let ms = 1_000_000u64;
    sc.tracer.min_round_ns = ms / 2;
    sc.tracer.max_round_ns = 2 * ms;
    sc.tracer.grace_ns = ms / 10;
    sc.tracer.read_timeout_ns = ms / 4;
    sc.tracer.tcp_connect_timeout_ns = ms;
    sc.tracer.max_ttl = 30;
    sc.net.target.tcp_open = t.chance(500);
    sc.light = true;
    sc.stable = false;
    // pilot: sequence numbers consumed before each round
    let mut pilot = sc.clone();
    pilot.tracer.rounds = 220;
    pilot.tracer.initial_seq = 1000;
    let rec = crate::run::run_scenario(pilot, Tape::from_seed(0x7769_6c6f), RunOpts { snapshots: false, clock_log: false });
    let starts: Vec<usize> = std::iter::once(0).chain(rec.rounds.iter().map(|r| r.attempts_end)).collect();
    let k = starts.iter().position(|c| *c >= 520).unwrap_or(starts.len() - 1);
    let consumed = starts[k] as u32;
    let target_start = 65_020 + t.draw(8);
    let initial = target_start.saturating_sub(consumed).min(64_511);
    sc.tracer.initial_seq = initial as u16;
    sc.tracer.rounds = k as u32 + 3;
    sc.faults.addr_in_use_pm = [1000u32, 1000, 950, 800][t.pick(4)];
    sc.faults.addr_in_use_from_round = k as u32;
    sc
}

/// Long runs across sequence wrap-arounds with adversarial deliveries: after a wrap the
/// rounds start at the initial sequence again and slots of the round buffer may still hold
/// probes of an older, longer round that started at the same sequence.
fn g_inject_long(t: &mut Tape) -> Scenario {
    use crate::scenario::{Ports, Proto, Strat};
    let mut sc = g_long(t);
    // enough rounds to come round to the initial sequence again (512 numbers away)
    sc.tracer.rounds = if t.chance(600) { 90 + t.draw(160) } else { 20 + t.skewed(220) };
    // half of the runs in the regime that wraps every 512 numbers
    if t.chance(500) {
        sc.tracer.proto = Proto::Udp;
        sc.tracer.strat = Strat::Dublin;
        sc.tracer.v6 = true;
        sc.tracer.unprivileged = false;
        if matches!(sc.tracer.ports, Ports::None) {
            sc.tracer.ports = Ports::FixedSrc(5000);
        }
        sc.tracer.source = crate::scenario::default_source(true);
        sc.tracer.target = crate::scenario::default_target(true);
        for path in &mut sc.net.paths {
            for (i, r) in path.routers.iter_mut().enumerate() {
                r.addr = crate::scenario::router_addr(true, i as u32 + 1, 0, 0);
                r.nat = None;
            }
        }
        sc.net.target.reply_from = None;
    }
    // the open finding c07.wrap-overlap (TCP re-issue storms next to the largest initial
    // sequence make consecutive rounds share numbers) is looked for by C07, not here
    if sc.tracer.proto == Proto::Tcp {
        sc.tracer.initial_seq = sc.tracer.initial_seq.min(63_999);
    }
    sc.net.probe_loss_pm = sc.net.probe_loss_pm.max(30 + t.draw(120));
    sc.inject.never_sent_pm = 100 + t.draw(400);
    sc.inject.foreign_pm = t.draw(200);
    sc.inject.unrelated_pm = t.draw(100);
    sc.light = false;
    sc
}

fn g_stats(t: &mut Tape) -> Scenario {
    // many short rounds so that per-hop statistics accumulate
    let mut p = Profile::base();
    p.max_path = 20;
    p.sock_faults = true;
    p.addr_in_use = true;
    let mut sc = gen_scenario(t, &p);
    let ms = 1_000_000u64;
    sc.tracer.rounds = 5 + t.skewed(300);
    sc.tracer.max_round_ns = (2 + u64::from(t.draw(20))) * ms;
    sc.tracer.min_round_ns = sc.tracer.min_round_ns.min(sc.tracer.max_round_ns);
    sc.tracer.grace_ns = sc.tracer.grace_ns.min(2 * ms);
    sc.tracer.read_timeout_ns = ms;
    sc.tracer.tcp_connect_timeout_ns = sc.tracer.tcp_connect_timeout_ns.min(20 * ms);
    sc.faults.sock_pm = sc.faults.sock_pm.min(8);
    sc.faults.sock_benign_pm = 1000;
    sc.faults.stall_pm = 0;
    sc.faults.tick_base_ns = sc.faults.tick_base_ns.clamp(100, 2000);
    sc
}

fn g_ext(t: &mut Tape) -> Scenario {
    let mut p = Profile::base();
    p.ext_heavy = true;
    p.delivery_faults = false;
    p.late = false;
    p.stalls = false;
    p.hop_kinds = false;
    p.target_kinds = false;
    p.max_rounds = 4;
    p.max_path = 24;
    let mut sc = gen_scenario(t, &p);
    if t.chance(800) {
        sc.tracer.ext_enabled = true;
    }
    sc
}

/// C14: several rounds over paths on which the router answering for a ttl changes (equal-cost
/// paths, a route change), so that a hop's latest response carries other objects than an
/// earlier one, or none: what the hop shows is what its latest response carried.
fn g_ext_rounds(t: &mut Tape) -> Scenario {
    let mut p = Profile::base();
    p.ext_heavy = true;
    p.ecmp_heavy = t.chance(500);
    p.late = false;
    p.stalls = false;
    p.target_kinds = false;
    p.max_rounds = 8;
    p.max_path = 12;
    let mut sc = gen_scenario(t, &p);
    sc.tracer.rounds = sc.tracer.rounds.max(3);
    sc.tracer.ext_enabled = true;
    sc
}

fn g_flows(t: &mut Tape) -> Scenario {
    use crate::gen::Cell;
    use crate::scenario::{Proto, Strat};
    let mut p = Profile::base();
    p.ecmp_heavy = true;
    p.small_max_flows = t.chance(700);
    p.max_rounds = 40;
    p.max_path = 16;
    p.extensions = false;
    let mut cells = Vec::new();
    for strat in [Strat::Paris, Strat::Dublin] {
        for ports in [1, 2, 3] {
            cells.push(Cell { proto: Proto::Udp, strat, ports, unprivileged: false });
        }
    }
    cells.push(Cell { proto: Proto::Icmp, strat: Strat::Classic, ports: 0, unprivileged: false });
    cells.push(Cell { proto: Proto::Udp, strat: Strat::Classic, ports: 1, unprivileged: false });
    cells.push(Cell { proto: Proto::Tcp, strat: Strat::Classic, ports: 2, unprivileged: false });
    p.cells = cells;
    let mut sc = gen_scenario(t, &p);
    let ms = 1_000_000u64;
    sc.tracer.max_round_ns = sc.tracer.max_round_ns.min(40 * ms);
    sc.tracer.min_round_ns = sc.tracer.min_round_ns.min(sc.tracer.max_round_ns);
    sc.tracer.read_timeout_ns = sc.tracer.read_timeout_ns.min(2 * ms);
    sc
}

fn g_nat(t: &mut Tape) -> Scenario {
    use crate::gen::Cell;
    use crate::scenario::{Proto, Strat};
    let mut p = Profile::base();
    p.nat = true;
    p.families = [true, !t.chance(850)];
    if p.families[1] {
        p.families = [true, true];
    } else {
        p.families = [true, false];
    }
    p.ecmp = false;
    p.route_change = false;
    p.max_rounds = 8;
    p.max_path = 16;
    if t.chance(800) {
        p.cells = (1..=3).map(|ports| Cell { proto: Proto::Udp, strat: Strat::Dublin, ports, unprivileged: false }).collect();
    }
    gen_scenario(t, &p)
}

/// C19: NAT paths on which single probes fail to be sent (transient send failures): a failed
/// probe is not a responding hop, the comparison goes on with the hop that answered before it.
fn g_nat_sockfaults(t: &mut Tape) -> Scenario {
    use crate::gen::Cell;
    use crate::scenario::{Proto, Strat};
    let mut p = Profile::base();
    p.nat = true;
    p.families = [true, false];
    p.ecmp = false;
    p.route_change = false;
    p.sock_faults = true;
    p.max_rounds = 8;
    p.max_path = 16;
    p.cells = (1..=3).map(|ports| Cell { proto: Proto::Udp, strat: Strat::Dublin, ports, unprivileged: false }).collect();
    let mut sc = gen_scenario(t, &p);
    sc.faults.sock_benign_pm = 1000;
    sc.faults.sock_pm = sc.faults.sock_pm.clamp(10, 60);
    sc
}

/// C19: the wall clock is stepped back (by up to half a second) while probes are in flight on
/// a NAT path, so that a response may carry a receive time before its probe's send time: the
/// NAT column depends on checksums, not on clocks.
fn g_nat_clock_step(t: &mut Tape) -> Scenario {
    let mut sc = g_nat(t);
    sc.faults.wall_clock_back = Some((8 + u64::from(t.draw(300)), (1 + u64::from(t.skewed(500))) * 1_000_000));
    sc.faults.stall_pm = 0;
    sc.stable = false;
    sc.epoch_liveness = false;
    sc
}

fn g_corrupt(t: &mut Tape) -> Scenario {
    // live mode: genuine responses are corrupted in flight while probes are outstanding
    let mut p = Profile::base();
    p.ext_heavy = t.chance(500);
    p.max_rounds = 4;
    p.max_path = 12;
    p.stalls = false;
    let mut sc = gen_scenario(t, &p);
    sc.inject.corrupt_pm = 100 + t.draw(900);
    sc.sniff = t.chance(500);
    sc
}

/// The configurations the C04 sweep is run in: protocol x family x strategy x extension
/// mode x responder layout.
const SWEEP_CFGS: u32 = 5 * 2 * 2 * 4;

fn sweep_truncs(tier: &str) -> Vec<Option<u16>> {
    let mut v: Vec<Option<u16>> = vec![None];
    if tier == "thorough" {
        v.extend((0..=200u16).map(Some));
        v.extend((208..=640u16).step_by(16).map(Some));
    } else {
        v.extend((0..=8u16).map(Some));
        v.extend([12, 16, 20, 24, 27, 28, 29, 32, 36, 40, 47, 48, 49, 56, 64, 72, 127, 129, 135, 200].map(Some));
    }
    v
}

fn dims8(tier: &str) -> Vec<u32> {
    vec![SWEEP_CFGS, FIELDS8.len() as u32, 256, sweep_truncs(tier).len() as u32]
}

fn dims16(tier: &str) -> Vec<u32> {
    vec![SWEEP_CFGS, FIELDS16.len() as u32, crate::net::MUT_VALUES_16.len() as u32, sweep_truncs(tier).len() as u32]
}

// an enumerated family runs in one tier only (an empty dimension list skips it)
fn sweep_dims8_quick(tier: &str) -> Vec<u32> {
    if tier == "quick" { dims8("quick") } else { Vec::new() }
}
fn sweep_dims8_thorough(tier: &str) -> Vec<u32> {
    if tier == "thorough" { dims8("thorough") } else { Vec::new() }
}
fn sweep_dims16_quick(tier: &str) -> Vec<u32> {
    if tier == "quick" { dims16("quick") } else { Vec::new() }
}
fn sweep_dims16_thorough(tier: &str) -> Vec<u32> {
    if tier == "thorough" { dims16("thorough") } else { Vec::new() }
}

const FIELDS8: &[u8] = &[0, 1, 2, 3, 4, 5, 8, 9, 11, 12, 15];
const FIELDS16: &[u8] = &[6, 7, 10, 13, 14];

fn sweep_scenario(t: &mut Tape, wide: bool, tier: &str) -> Scenario {
    use crate::scenario::*;
    use crate::wire::{mpls_object, ErrorLayout, ExtObject, MplsEntry};
    let cfg = t.draw(SWEEP_CFGS);
    let (field, value) = if wide {
        let f = FIELDS16[t.draw(FIELDS16.len() as u32) as usize];
        (f, u32::from(crate::net::MUT_VALUES_16[t.draw(crate::net::MUT_VALUES_16.len() as u32) as usize]))
    } else {
        let f = FIELDS8[t.draw(FIELDS8.len() as u32) as usize];
        (f, t.draw(256))
    };
    let truncs = sweep_truncs(tier);
    let trunc = truncs[t.draw(truncs.len() as u32) as usize];
    let proto_i = cfg % 5;
    let v6 = (cfg / 5) % 2 == 1;
    let ext_enabled = (cfg / 10) % 2 == 1;
    let layout_i = cfg / 20;
    let (proto, strat, ports) = match proto_i {
        0 => (Proto::Icmp, Strat::Classic, Ports::None),
        1 => (Proto::Udp, Strat::Classic, Ports::FixedSrc(5000)),
        2 => (Proto::Udp, Strat::Paris, Ports::FixedDest(33434)),
        3 => (Proto::Udp, Strat::Dublin, Ports::FixedBoth(5000, 33434)),
        _ => (Proto::Tcp, Strat::Classic, Ports::FixedDest(80)),
    };
    let objs = vec![
        mpls_object(&[MplsEntry { label: 16, exp: 1, bos: 0, ttl: 1 }, MplsEntry { label: 17, exp: 2, bos: 1, ttl: 2 }]),
        ExtObject { class: 2, ctype: 3, payload: vec![1, 2, 3, 4, 5, 6, 7, 8] },
    ];
    let (quote, layout) = match layout_i {
        0 => (Quote::Min8, ErrorLayout::Plain),
        1 => (Quote::Full, ErrorLayout::Plain),
        2 => (Quote::Full, ErrorLayout::Compliant(objs)),
        _ => (Quote::Min8, ErrorLayout::Legacy128(objs)),
    };
    let router = |h: u32| RouterCfg {
        addr: router_addr(v6, h, 0, 0),
        silent: false,
        rate_limit: 1,
        duplicate: false,
        extra_delay_ns: 0,
        quote,
        layout: layout.clone(),
        quoted_ttl: 1,
        tos_rewrite: None,
        nat: None,
        unreachable_code: None,
    };
    let ms = 1_000_000u64;
    Scenario {
        tracer: TracerCfg {
            v6,
            proto,
            strat,
            ports,
            unprivileged: false,
            ext_enabled,
            first_ttl: 1,
            max_ttl: 8,
            max_inflight: 24,
            initial_seq: 33434,
            packet_size: if layout_i == 1 || layout_i == 2 { 300 } else { 84 },
            pattern: 0x2a,
            tos: 0,
            trace_id: 0x1234,
            rounds: 1,
            min_round_ns: 0,
            max_round_ns: 5 * ms,
            grace_ns: 0,
            read_timeout_ns: ms,
            tcp_connect_timeout_ns: 100 * ms,
            max_samples: 4,
            max_flows: 4,
            explicit_source: false,
            interface: None,
            source: default_source(v6),
            target: default_target(v6),
        },
        net: NetCfg {
            paths: vec![PathCfg { routers: vec![router(1), router(2)] }],
            route_change: None,
            target: TargetCfg { behaviour: TargetBehaviour::Normal, reply_from: None, tcp_open: true, tcp_reject_code: None, quote, layout },
            probe_loss_pm: 0,
            resp_loss_pm: 0,
            dup_pm: 0,
            extra_delay_pm: 0,
            late_pm: 0,
            hop_delay_ns: 50_000,
            jitter_ns: 0,
            ecmp_salt: 7,
            ip_options: None,
        },
        inject: InjectCfg::default(),
        faults: FaultCfg { sock_pm: 0, sock_benign_pm: 0, scripted: Vec::new(), stall_pm: 0, stall_max_ns: 0, addr_in_use_pm: 0, addr_in_use_from_round: 0, addr_in_use_udp: false, addr_in_use_burst: None, wall_clock_back: None, tick_base_ns: 100, tick_jitter_ns: 0 },
        stable: true,
        light: true,
        mutation: Some(Mutation { field, value, trunc }),
        sniff: true,
        epoch_liveness: false,
        synth: None,
        neighbour: None,
        record_rx: false,
        alone_equal: false,
        clear_after_round: None,
    }
}

fn g_sweep8_quick(t: &mut Tape) -> Scenario {
    sweep_scenario(t, false, "quick")
}
fn g_sweep8_thorough(t: &mut Tape) -> Scenario {
    sweep_scenario(t, false, "thorough")
}
fn g_sweep16_quick(t: &mut Tape) -> Scenario {
    sweep_scenario(t, true, "quick")
}
fn g_sweep16_thorough(t: &mut Tape) -> Scenario {
    sweep_scenario(t, true, "thorough")
}

// ---- C03: a second real tracer on the same host ----------------------------------------

fn add_neighbour(t: &mut Tape, sc: &mut Scenario) {
    use crate::scenario::{NeighbourCfg, Proto};
    // only a raw receive socket sees the other tracer's ICMP traffic
    sc.tracer.unprivileged = false;
    if sc.tracer.proto == Proto::Udp && matches!(sc.tracer.ports, crate::scenario::Ports::None) {
        sc.tracer.ports = crate::scenario::Ports::FixedSrc(sc.tracer.trace_id.max(1024));
    }
    sc.neighbour = Some(NeighbourCfg {
        id_delta: 1 + t.draw(3) as u16,
        other_target: sc.tracer.proto != Proto::Icmp || t.chance(500),
        start_offset_ns: u64::from(t.draw(3000)) * 1000,
    });
}

/// Two real tracers (identifiers pid, pid+i) over the full fault mix.
fn g_neighbour(t: &mut Tape) -> Scenario {
    let mut p = Profile::base();
    p.cells.retain(|c| !c.unprivileged);
    p.max_rounds = 6;
    let mut sc = gen_scenario(t, &p);
    add_neighbour(t, &mut sc);
    sc
}

/// Two real tracers over a quiet lossless network with long rounds: the differential
/// "as if alone" comparison applies.
fn g_neighbour_quiet(t: &mut Tape) -> Scenario {
    let mut p = Profile::base();
    p.cells.retain(|c| !c.unprivileged);
    p.delivery_faults = false;
    p.late = false;
    p.stalls = false;
    p.hop_kinds = false;
    p.target_kinds = false;
    p.unreachable_hops = false;
    p.route_change = false;
    // per-packet load balancing follows the sequence numbers, which shift with the number
    // of probes sent beyond the target (timing): one path only
    p.ecmp = false;
    p.max_path = 16;
    p.max_rounds = 6;
    let mut sc = gen_scenario(t, &p);
    let ms = 1_000_000u64;
    sc.tracer.max_round_ns = sc.tracer.max_round_ns.max(40 * ms);
    sc.tracer.min_round_ns = sc.tracer.min_round_ns.min(sc.tracer.max_round_ns);
    sc.faults.stall_pm = 0;
    sc.faults.sock_pm = 0;
    sc.faults.addr_in_use_pm = 0;
    add_neighbour(t, &mut sc);
    sc.alone_equal = true;
    sc
}

// ---- synthetic round sequences (C05 / C10 / C15) ------------------------------------

/// Rounds drawn from the tape and applied through the tracer's real round handler: mixes
/// of complete / awaited / failed / skipped probes the simulated networks rarely produce,
/// round-trip times from 0 to 10 s, first-ttl 1..254, up to thousands of rounds, sample
/// limits from 0, flow limits from 1.
fn g_synth(t: &mut Tape) -> Scenario {
    use crate::scenario::SynthCfg;
    let mut sc = fault_enum_base(t.draw(fe_cfgs()));
    sc.stable = false;
    let tr = &mut sc.tracer;
    tr.first_ttl = match t.weighted(&[5, 3, 1, 1]) {
        0 => 1,
        1 => 1 + t.draw(20) as u8,
        2 => 1 + t.draw(254) as u8,
        _ => 254,
    };
    tr.max_ttl = match t.weighted(&[3, 3, 2]) {
        0 => 254,
        1 => tr.first_ttl.saturating_add(t.draw(40) as u8).min(254),
        _ => tr.first_ttl,
    };
    tr.max_samples = match t.weighted(&[2, 2, 4, 2]) {
        0 => 0,
        1 => 1,
        2 => 2 + t.draw(10),
        _ => 256,
    } as usize;
    tr.max_flows = match t.weighted(&[2, 4, 2]) {
        0 => 1,
        1 => 2 + t.draw(8),
        _ => 64,
    } as usize;
    tr.initial_seq = t.draw(64512) as u16;
    let rounds = match t.weighted(&[12, 6, 1]) {
        0 => 1 + t.draw(12),
        1 => 10 + t.draw(150),
        _ => 500 + t.draw(2500),
    };
    let mix = t.pick(5);
    let (w_complete, w_awaited, w_failed) = match mix {
        0 => (8, 2, 0),
        1 => (5, 4, 1),
        2 => (1, 8, 1),
        3 => (3, 3, 3),
        _ => (1, 0, 0),
    };
    sc.synth = Some(SynthCfg {
        rounds,
        // long histories stay narrow so that a run costs at most ~30k probe updates
        max_len: match t.weighted(&[4, 4, 1]) {
            0 => 1 + t.draw(6) as u8,
            1 => 4 + t.draw(if rounds > 400 { 8 } else { 28 }) as u8,
            _ => {
                if rounds > 100 {
                    12
                } else {
                    254
                }
            }
        },
        rtt_regime: t.pick(4) as u8,
        addr_pool: 1 + t.draw(3) as u8,
        w_complete,
        w_awaited,
        w_failed,
        skipped_pm: if t.chance(300) { 20 + t.draw(200) } else { 0 },
        shrink_pm: t.draw(300),
        dense: false,
    });
    sc
}

/// Synthetic rounds for the oracles that follow the state round by round (flows): a
/// snapshot after every round, histories of at most 200 rounds.
fn g_synth_dense(t: &mut Tape) -> Scenario {
    let mut sc = g_synth(t);
    if let Some(cfg) = &mut sc.synth {
        cfg.dense = true;
        cfg.rounds = cfg.rounds.min(40 + cfg.rounds % 160);
    }
    sc
}

// ---- C09: enumerated socket faults -------------------------------------------------

const FE_SITES: [crate::scenario::Site; 18] = {
    use crate::scenario::Site::*;
    [NewSocket, Bind, SetTtl, SetTos, SetHops, SetHdrIncl, SetReusePort, Connect, SendTo, IsReadable, IsWritable, Read, RecvFrom, TakeError, PeerAddr, Shutdown, IfaceLookup, Discover]
};
const FE_ERRNOS: [i32; 16] = [
    libc::EINTR,
    libc::EAGAIN,
    libc::EINPROGRESS,
    libc::EADDRINUSE,
    libc::EADDRNOTAVAIL,
    libc::ENETUNREACH,
    libc::EHOSTUNREACH,
    libc::EINVAL,
    libc::ENOBUFS,
    libc::EPERM,
    libc::EACCES,
    libc::EMSGSIZE,
    libc::ECONNREFUSED,
    libc::ETIMEDOUT,
    libc::EBADF,
    libc::ENETDOWN,
];
/// Errnos of the second fault of a pair: one of every class the tracer distinguishes.
const FE_ERRNOS2: [i32; 8] = [
    libc::EINTR,
    libc::EAGAIN,
    libc::EINPROGRESS,
    libc::EADDRINUSE,
    libc::EADDRNOTAVAIL,
    libc::ENETUNREACH,
    libc::EHOSTUNREACH,
    libc::EINVAL,
];
const FE_NTH_QUICK: u32 = 8;
const FE_NTH_THOROUGH: u32 = 40;
const FE_NTH_PAIR: u32 = 6;

/// The fault-free base run of the fault enumeration: configuration `cfg` (executable cell
/// x address family) on a three-router path whose target answers, three rounds.
fn fault_enum_base(cfg: u32) -> Scenario {
    use crate::gen::executable_cells;
    use crate::scenario::*;
    use crate::wire::ErrorLayout;
    let cells = executable_cells();
    let cell = cells[(cfg as usize / 2) % cells.len()];
    let v6 = cfg % 2 == 1;
    let ports = match cell.ports {
        0 => Ports::None,
        1 => Ports::FixedSrc(5000),
        2 => Ports::FixedDest(if cell.proto == Proto::Tcp { 80 } else { 33434 }),
        _ => Ports::FixedBoth(5000, 33434),
    };
    let router = |h: u32| RouterCfg {
        addr: router_addr(v6, h, 0, 0),
        silent: h == 2,
        rate_limit: 1,
        duplicate: false,
        extra_delay_ns: 0,
        quote: Quote::Min8,
        layout: ErrorLayout::Plain,
        quoted_ttl: 1,
        tos_rewrite: None,
        nat: None,
        unreachable_code: None,
    };
    let ms = 1_000_000u64;
    Scenario {
        tracer: TracerCfg {
            v6,
            proto: cell.proto,
            strat: cell.strat,
            ports,
            unprivileged: cell.unprivileged,
            ext_enabled: false,
            first_ttl: 1,
            max_ttl: 6,
            max_inflight: 24,
            initial_seq: 33434,
            packet_size: 84,
            pattern: 0,
            tos: 0,
            trace_id: 0x4321,
            rounds: 3,
            min_round_ns: 2 * ms,
            max_round_ns: 6 * ms,
            grace_ns: ms / 2,
            read_timeout_ns: ms / 2,
            tcp_connect_timeout_ns: 4 * ms,
            max_samples: 4,
            max_flows: 4,
            explicit_source: false,
            interface: None,
            source: default_source(v6),
            target: default_target(v6),
        },
        net: NetCfg {
            paths: vec![PathCfg { routers: vec![router(1), router(2), router(3)] }],
            route_change: None,
            target: TargetCfg { behaviour: TargetBehaviour::Normal, reply_from: None, tcp_open: cfg % 4 < 2, tcp_reject_code: None, quote: Quote::Min8, layout: ErrorLayout::Plain },
            probe_loss_pm: 0,
            resp_loss_pm: 0,
            dup_pm: 0,
            extra_delay_pm: 0,
            late_pm: 0,
            hop_delay_ns: 50_000,
            jitter_ns: 0,
            ecmp_salt: 7,
            ip_options: None,
        },
        inject: InjectCfg::default(),
        faults: FaultCfg { sock_pm: 0, sock_benign_pm: 0, scripted: Vec::new(), stall_pm: 0, stall_max_ns: 0, addr_in_use_pm: 0, addr_in_use_from_round: 0, addr_in_use_udp: false, addr_in_use_burst: None, wall_clock_back: None, tick_base_ns: 100, tick_jitter_ns: 0 },
        stable: true,
        light: true,
        mutation: None,
        sniff: false,
        epoch_liveness: false,
        synth: None,
        neighbour: None,
        record_rx: false,
        alone_equal: false,
        clear_after_round: None,
    }
}

fn fe_cfgs() -> u32 {
    crate::gen::executable_cells().len() as u32 * 2
}

/// One fault: every configuration x site x phase x occurrence x errno.
fn fault_enum_single(t: &mut Tape) -> Scenario {
    use crate::scenario::ScriptedFault;
    let cfg = t.draw(fe_cfgs());
    let site = FE_SITES[t.draw(FE_SITES.len() as u32) as usize];
    let run_phase = t.draw(2) == 1;
    let nth = t.draw(FE_NTH_THOROUGH);
    let errno = FE_ERRNOS[t.draw(FE_ERRNOS.len() as u32) as usize];
    let mut sc = fault_enum_base(cfg);
    sc.faults.scripted.push(ScriptedFault { site, nth, errno, run_phase });
    sc
}
fn fault_enum_single_dims(tier: &str) -> Vec<u32> {
    let nth = if tier == "thorough" { FE_NTH_THOROUGH } else { FE_NTH_QUICK };
    vec![fe_cfgs(), FE_SITES.len() as u32, 2, nth, FE_ERRNOS.len() as u32]
}

/// Two faults in the run phase (the second only matters when the first was survived).
fn fault_enum_pair(t: &mut Tape) -> Scenario {
    use crate::scenario::ScriptedFault;
    let cfg = t.draw(fe_cfgs());
    let mut sc = fault_enum_base(cfg);
    for _ in 0..2 {
        let site = FE_SITES[t.draw(FE_SITES.len() as u32) as usize];
        let nth = t.draw(FE_NTH_PAIR);
        let errno = FE_ERRNOS2[t.draw(FE_ERRNOS2.len() as u32) as usize];
        sc.faults.scripted.push(ScriptedFault { site, nth, errno, run_phase: true });
    }
    sc
}
fn fault_enum_pair_dims(tier: &str) -> Vec<u32> {
    if tier != "thorough" {
        return Vec::new();
    }
    let one = [FE_SITES.len() as u32, FE_NTH_PAIR, FE_ERRNOS2.len() as u32];
    let mut v = vec![fe_cfgs()];
    v.extend_from_slice(&one);
    v.extend_from_slice(&one);
    v
}

/// Every combination the `Builder` API admits, valid or not.
fn g_builder(t: &mut Tape) -> Scenario {
    use crate::scenario::{Ports, Proto, Strat};
    let mut p = Profile::base();
    p.max_rounds = 3;
    p.max_path = 10;
    p.extensions = false;
    p.route_change = false;
    if t.chance(500) {
        p.delivery_faults = false;
        p.hop_kinds = false;
        p.stalls = false;
    }
    let mut sc = gen_scenario(t, &p);
    let tr = &mut sc.tracer;
    tr.proto = [Proto::Icmp, Proto::Udp, Proto::Tcp][t.pick(3)];
    tr.strat = [Strat::Classic, Strat::Paris, Strat::Dublin][t.pick(3)];
    let a = 1 + t.draw(65535) as u16;
    let b = 1 + t.draw(65535) as u16;
    tr.ports = match t.pick(4) {
        0 => Ports::FixedSrc(a),
        1 => Ports::FixedDest(a),
        2 => Ports::FixedBoth(a, b),
        _ => Ports::None,
    };
    tr.unprivileged = t.chance(400);
    let byte = |t: &mut Tape| match t.weighted(&[40, 15, 15, 10, 20]) {
        0 => 1 + t.draw(30),
        1 => 0,
        2 => 254,
        3 => 255,
        _ => t.draw(256),
    } as u8;
    tr.first_ttl = byte(t);
    tr.max_ttl = byte(t);
    tr.max_inflight = byte(t);
    tr.packet_size = match t.weighted(&[40, 10, 10, 10, 10, 20]) {
        0 => 28 + t.draw(997) as u16,
        1 => 0,
        2 => t.draw(48) as u16,
        3 => 1025 + t.draw(500) as u16,
        4 => 65535,
        _ => t.draw(65536) as u16,
    };
    tr.initial_seq = match t.weighted(&[50, 10, 10, 30]) {
        0 => tr.initial_seq,
        1 => 64512,
        2 => 65535,
        _ => t.draw(65536) as u16,
    };
    tr.max_samples = [256usize, 0, 1, 3][t.pick(4)];
    tr.max_flows = [64usize, 0, 1, 2][t.pick(4)];
    if t.chance(200) {
        tr.min_round_ns = tr.max_round_ns + 1_000_000; // min > max is accepted by the builder
    }
    // the state is cleared after the first round in a quarter of the runs (what the TUI's
    // clear-trace-data does): the limits stay what the configuration says
    if t.chance(250) {
        sc.tracer.rounds = sc.tracer.rounds.max(3);
        sc.clear_after_round = Some(0);
    }
    let tr = &mut sc.tracer;
    // the largest duration there is, for the two settings that never reach a system call
    if t.chance(60) {
        if t.chance(500) {
            tr.grace_ns = u64::MAX;
        } else {
            tr.min_round_ns = u64::MAX;
        }
    }
    // an explicit source address of the other address family (both are local to the host)
    if t.chance(80) {
        tr.explicit_source = true;
        tr.interface = None;
        tr.source = crate::scenario::default_source(!tr.v6);
    }
    sc.stable = false;
    sc
}

const ASSUME_SIM: &str = "the simulated socket/platform layer and network model (SimSocket, SimPlatform, independent decoder) stand in for the kernel and the Internet; real SocketImpl/PlatformImpl are outside the claim";
const ASSUME_CLOCK: &str = "virtual time is monotone (clock_gettime interposed); backward clock steps are not injected";

#[must_use]
pub fn registry() -> Vec<PropertyCheck> {
    vec![
        PropertyCheck {
            id: "C01",
            level: "exploration",
            rule: "each run = one seeded scenario (tracer configuration cell x simulated topology x delivery-fault plan) executed by the real tracer over SimSocket in virtual time; a run is non-trivial when at least one fault kind fired or one reach counter moved; distinct = distinct abstract traces (hash of the sequence of (event kind, ttl, outcome class), times and addresses erased)",
            families: vec![
                Family { name: "swarm", gen: g_base, oracle: oracle::c01, opts: opts_full(), quick_runs: 150_000, thorough_runs: 6_000_000, must_reach: &["fault.probe_loss", "fault.duplicate", "fault.late_delivery", "reach.late_response_handed"], enum_dims: None },
                Family { name: "fault-free", gen: g_quiet, oracle: oracle::c01, opts: opts_full(), quick_runs: 50_000, thorough_runs: 1_500_000, must_reach: &[], enum_dims: None },
                Family { name: "tcp-backlog", gen: g_tcp_backlog, oracle: oracle::c01, opts: opts_full(), quick_runs: 1_500, thorough_runs: 40_000, must_reach: &[], enum_dims: None },
                Family { name: "socket-faults", gen: g_sockfaults, oracle: oracle::c01, opts: opts_full(), quick_runs: 50_000, thorough_runs: 1_500_000, must_reach: &[], enum_dims: None },
            ],
            assumptions: vec![ASSUME_SIM, ASSUME_CLOCK],
        },
        PropertyCheck {
            id: "C02",
            level: "exploration",
            rule: "seeded scenarios on lossless networks where every hop answers once per probe in every quoting policy / RFC 4884 layout / TOS-TTL-checksum rewrite, long rounds sweeping the issuable sequence range per configuration cell (thorough: every sequence from 0 to the wrap in every cell), plus foreign quotations derived from genuine ones by changing exactly one identity field; non-trivial/distinct as for C01",
            families: vec![
                Family { name: "lossless", gen: g_lossless, oracle: oracle::c02, opts: opts_light(), quick_runs: 120_000, thorough_runs: 4_000_000, must_reach: &["reach.extension_emitted", "fault.tos_rewrite"], enum_dims: None },
                Family { name: "tcp-backlog", gen: g_tcp_backlog, oracle: oracle::c02, opts: opts_light(), quick_runs: 1_500, thorough_runs: 40_000, must_reach: &[], enum_dims: None },
                Family { name: "socket-faults", gen: g_sockfaults, oracle: oracle::c02, opts: opts_light(), quick_runs: 40_000, thorough_runs: 1_500_000, must_reach: &[], enum_dims: None },
                Family { name: "foreign", gen: g_foreign, oracle: oracle::c02, opts: opts_light(), quick_runs: 80_000, thorough_runs: 3_000_000, must_reach: &["handed.Foreign"], enum_dims: None },
                Family { name: "unprivileged-paris-dublin", gen: g_unpriv_multipath, oracle: oracle::c02, opts: opts_light(), quick_runs: 5_000, thorough_runs: 100_000, must_reach: &[], enum_dims: None },
                Family { name: "sequence-sweep", gen: g_sweep_sample, oracle: oracle::c02, opts: opts_light(), quick_runs: 1_500, thorough_runs: 20_000, must_reach: &[], enum_dims: None },
                Family { name: "sequence-sweep-full", gen: g_sweep_full, oracle: oracle::c02, opts: opts_light(), quick_runs: 0, thorough_runs: 320, must_reach: &[], enum_dims: None },
            ],
            assumptions: vec![ASSUME_SIM, "standards-conforming responders are those of the network model (RFC 792/1812/4443/4884 quoting policies listed in DESIGN.md)"],
        },
        PropertyCheck {
            id: "C03",
            level: "exploration",
            rule: "C01's workload plus adversarial deliveries at every phase of a round: duplicates, all previous-round responses re-delivered, foreign quotations (one identity field off), responses naming never-sent sequences inside/outside the window, unrelated ICMP, and the whole received traffic of a second real tracer (identifier pid+i, same or other target) run over the same network, with a differential comparison against the run without it on quiet networks; oracle = ground truth + reference model of the round bookkeeping fed with genuine responses only; non-trivial/distinct as for C01",
            families: vec![
                Family { name: "inject", gen: g_inject, oracle: oracle::c03, opts: opts_full(), quick_runs: 150_000, thorough_runs: 6_000_000, must_reach: &["handed.NeverSent", "handed.Foreign", "handed.Replay", "handed.Duplicate", "handed.Unrelated"], enum_dims: None },
                Family { name: "inject-quiet", gen: g_inject_quiet, oracle: oracle::c03, opts: opts_full(), quick_runs: 60_000, thorough_runs: 2_000_000, must_reach: &[], enum_dims: None },
                Family { name: "inject-long", gen: g_inject_long, oracle: oracle::c03, opts: opts_full(), quick_runs: 5_000, thorough_runs: 200_000, must_reach: &["handed.NeverSent"], enum_dims: None },
                Family { name: "second-tracer", gen: g_neighbour, oracle: oracle::c03_neighbour, opts: opts_full(), quick_runs: 40_000, thorough_runs: 1_500_000, must_reach: &["reach.neighbour_datagram"], enum_dims: None },
                Family { name: "second-tracer-quiet", gen: g_neighbour_quiet, oracle: oracle::c03_neighbour, opts: opts_full(), quick_runs: 30_000, thorough_runs: 1_000_000, must_reach: &["reach.neighbour_datagram"], enum_dims: None },
            ],
            assumptions: vec![ASSUME_SIM, ASSUME_CLOCK, "a forged response naming a sequence that the tracer did issue before the forgery arrived is indistinguishable from a genuine one; such runs are excluded"],
        },
        PropertyCheck {
            id: "C07",
            level: "exploration",
            rule: "long seeded runs (50..1500 short rounds) from boundary and random initial sequences, both maximum-sequence regimes, TCP port-collision storms up to every bind failing; sequence arithmetic monitor over every send attempt plus re-delivery of all previous-round responses; a boundary walk aligns a round start with each value next to the restart limit (pilot run, then initial sequence chosen accordingly) and lets that round use its whole budget; non-trivial/distinct as for C01",
            families: vec![
                Family { name: "wrap-aligned-storm", gen: g_wrap_aligned, oracle: oracle::c07, opts: opts_light(), quick_runs: 2_000, thorough_runs: 40_000, must_reach: &[], enum_dims: None },
                Family { name: "initial-sequence-limit", gen: g_seq_limit, oracle: oracle::c07, opts: opts_light(), quick_runs: 0, thorough_runs: 0, must_reach: &[], enum_dims: Some(seq_limit_dims) },
                Family { name: "capacity-boundary", gen: g_capacity_boundary, oracle: oracle::c07, opts: opts_light(), quick_runs: 1_500, thorough_runs: 40_000, must_reach: &["fault.addr_in_use_burst"], enum_dims: None },
                Family { name: "full-cycle", gen: g_full_cycle, oracle: oracle::c07, opts: opts_light(), quick_runs: 96, thorough_runs: 2_000, must_reach: &[], enum_dims: None },
                Family { name: "long-runs", gen: g_long, oracle: oracle::c07, opts: opts_light(), quick_runs: 6_000, thorough_runs: 300_000, must_reach: &[], enum_dims: None },
                Family { name: "socket-faults", gen: g_sockfaults, oracle: oracle::c07, opts: opts_light(), quick_runs: 40_000, thorough_runs: 1_500_000, must_reach: &[], enum_dims: None },
            ],
            assumptions: vec![ASSUME_SIM, ASSUME_CLOCK],
        },
        PropertyCheck {
            id: "C04",
            level: "fault_enumeration",
            rule: "sweep (enumerated, exhaustive over the stated grid): for each of 80 configurations (protocol x family x strategy x extension mode x responder layout) every genuine ICMP response of a one-round trace is delivered with one length/offset/type field overwritten by every 8-bit value (16-bit fields: a 35-value boundary set) and truncated to every length of the tier's set, through the real Channel, Strategy and State; live: seeded traces whose responses are corrupted in flight (bit flips, truncation, field rewrites, oversize); a passive sniffer walks every public trippy-packet view over every delivered datagram. A case is non-trivial when a corruption was delivered; distinct = distinct abstract traces",
            families: vec![
                Family { name: "sweep-8bit-fields", gen: g_sweep8_quick, oracle: oracle::c04, opts: opts_light(), quick_runs: 0, thorough_runs: 0, must_reach: &["handed.Corrupt"], enum_dims: Some(sweep_dims8_quick) },
                Family { name: "sweep-16bit-fields", gen: g_sweep16_quick, oracle: oracle::c04, opts: opts_light(), quick_runs: 0, thorough_runs: 0, must_reach: &["handed.Corrupt"], enum_dims: Some(sweep_dims16_quick) },
                Family { name: "sweep-8bit-fields-all-lengths", gen: g_sweep8_thorough, oracle: oracle::c04, opts: opts_light(), quick_runs: 0, thorough_runs: 0, must_reach: &["handed.Corrupt"], enum_dims: Some(sweep_dims8_thorough) },
                Family { name: "sweep-16bit-fields-all-lengths", gen: g_sweep16_thorough, oracle: oracle::c04, opts: opts_light(), quick_runs: 0, thorough_runs: 0, must_reach: &["handed.Corrupt"], enum_dims: Some(sweep_dims16_thorough) },
                Family { name: "live-corruption", gen: g_corrupt, oracle: oracle::c04, opts: opts_light(), quick_runs: 120_000, thorough_runs: 5_000_000, must_reach: &["fault.corrupt.bitflip", "fault.corrupt.truncate", "fault.corrupt.field", "fault.corrupt.oversize"], enum_dims: None },
            ],
            assumptions: vec![ASSUME_SIM, "the accessor half (every accessor of every packet view) is input enumeration riding on the simulator's traffic: the sniffer sees the datagrams the simulator delivers and the sub-slices the views themselves expose, not arbitrary buffers"],
        },
        PropertyCheck {
            id: "C05",
            level: "exploration",
            rule: "round histories published by the real strategy under the full fault mix (complete / awaited / failed / skipped probes) are re-aggregated by a reference aggregator (plain lists, two-pass formulas) and compared with the snapshot after every round, together with the conservation laws; non-trivial/distinct as for C01",
            families: vec![
                Family { name: "stats-long", gen: g_stats, oracle: oracle::c05, opts: opts_full(), quick_runs: 8_000, thorough_runs: 300_000, must_reach: &[], enum_dims: None },
                Family { name: "swarm", gen: g_base, oracle: oracle::c05, opts: opts_full(), quick_runs: 60_000, thorough_runs: 2_000_000, must_reach: &[], enum_dims: None },
                Family { name: "socket-faults", gen: g_sockfaults, oracle: oracle::c05, opts: opts_full(), quick_runs: 40_000, thorough_runs: 1_500_000, must_reach: &[], enum_dims: None },
                Family { name: "clear-midway", gen: g_clear_stats, oracle: oracle::c05, opts: opts_full(), quick_runs: 10_000, thorough_runs: 400_000, must_reach: &[], enum_dims: None },
                Family { name: "synthetic-rounds", gen: g_synth, oracle: oracle::c05, opts: opts_full(), quick_runs: 20_000, thorough_runs: 600_000, must_reach: &["reach.synthetic_round"], enum_dims: None },
            ],
            assumptions: vec![ASSUME_SIM, ASSUME_CLOCK, "floating point figures are compared with relative tolerance 1e-9 (stddev: 1e-6 against the two-pass formula)"],
        },
        PropertyCheck {
            id: "C14",
            level: "exploration",
            rule: "extension-emitting routers and targets in the simulated network: every RFC 4884 length the quotation policies produce (compliant and legacy 128-octet forms), 0..n objects of arbitrary class/size, MPLS stacks with arbitrary label/EXP/S/TTL, both parse modes, IPv4 and IPv6; the reported extensions must equal the encoded list and the probe must still be recognised; non-trivial/distinct as for C01",
            families: vec![
                Family { name: "extensions", gen: g_ext, oracle: oracle::c14, opts: opts_light(), quick_runs: 150_000, thorough_runs: 5_000_000, must_reach: &["reach.extension_emitted", "reach.ext_quotation_ge_256_octets"], enum_dims: None },
                Family { name: "extensions-across-rounds", gen: g_ext_rounds, oracle: oracle::c14, opts: opts_full(), quick_runs: 30_000, thorough_runs: 1_000_000, must_reach: &["reach.extension_emitted"], enum_dims: None },
                Family { name: "swarm", gen: g_base, oracle: oracle::c14, opts: opts_light(), quick_runs: 50_000, thorough_runs: 2_000_000, must_reach: &[], enum_dims: None },
            ],
            assumptions: vec![ASSUME_SIM, "an ICMP error without RFC 4884 length whose quotation exceeds 128 octets is ambiguous under RFC 4884 section 5; identity is asserted for such messages, extension equality is not"],
        },
        PropertyCheck {
            id: "C15",
            level: "exploration",
            rule: "Paris/Dublin (and classic) traces over ECMP topologies with silent hops, unequal branch lengths, first-ttl > 1, max-flows 1..64 over up to 40 rounds; flow invariants and per-flow reference aggregation after every round; non-trivial/distinct as for C01",
            families: vec![
                Family { name: "flows", gen: g_flows, oracle: oracle::c15, opts: opts_full(), quick_runs: 60_000, thorough_runs: 2_500_000, must_reach: &["reach.ecmp_path_1"], enum_dims: None },
                Family { name: "swarm", gen: g_base, oracle: oracle::c15, opts: opts_full(), quick_runs: 40_000, thorough_runs: 1_500_000, must_reach: &[], enum_dims: None },
                Family { name: "clear-midway", gen: g_clear_flows, oracle: oracle::c15, opts: opts_full(), quick_runs: 20_000, thorough_runs: 800_000, must_reach: &[], enum_dims: None },
                Family { name: "synthetic-rounds", gen: g_synth_dense, oracle: oracle::c15, opts: opts_full(), quick_runs: 20_000, thorough_runs: 600_000, must_reach: &["reach.synthetic_round"], enum_dims: None },
            ],
            assumptions: vec![ASSUME_SIM, "position = ttl offset from first-ttl; rounds containing failed or skipped probes are held to the clauses that do not depend on positions"],
        },
        PropertyCheck {
            id: "C16",
            level: "exploration",
            rule: "builder path: every combination the Builder API admits (any protocol x strategy x port direction x privilege, ttl and in-flight limits 0..255, packet sizes 0..65535, sequences 0..65535, zero sample/flow limits, min > max durations) is built and, when accepted, run for up to three rounds over benign and faulty simulated networks; it must be rejected before any socket call or run without panicking; non-trivial/distinct as for C01",
            families: vec![
                Family { name: "many-rounds", gen: g_many_rounds, oracle: oracle::c16, opts: opts_light(), quick_runs: 0, thorough_runs: 0, must_reach: &[], enum_dims: Some(many_rounds_dims) },
                Family { name: "builder-combinations", gen: g_builder, oracle: oracle::c16, opts: opts_light(), quick_runs: 200_000, thorough_runs: 8_000_000, must_reach: &["end.rejected", "end.ok"], enum_dims: None },
            ],
            assumptions: vec![ASSUME_SIM, "the command-line half of C16 (option precedence, CLI validation) is decided by tuisim's configuration pipeline, not here"],
        },
        PropertyCheck {
            id: "C19",
            level: "exploration",
            rule: "IPv4/UDP/Dublin traces over paths with 0..3 address/port rewriting devices at drawn distances, silent and lossy hops; per-round NAT status recomputed from the quoted checksums on the simulated wire; all other configurations must report not-applicable; non-trivial/distinct as for C01",
            families: vec![
                Family { name: "nat", gen: g_nat, oracle: oracle::c19, opts: opts_full(), quick_runs: 100_000, thorough_runs: 4_000_000, must_reach: &["fault.nat_rewrite"], enum_dims: None },
                Family { name: "wall-clock-step", gen: g_nat_clock_step, oracle: oracle::c19, opts: opts_full(), quick_runs: 30_000, thorough_runs: 1_000_000, must_reach: &["fault.wall_clock_step_back"], enum_dims: None },
                Family { name: "nat-socket-faults", gen: g_nat_sockfaults, oracle: oracle::c19, opts: opts_full(), quick_runs: 40_000, thorough_runs: 1_500_000, must_reach: &["fault.nat_rewrite"], enum_dims: None },
                Family { name: "swarm", gen: g_base, oracle: oracle::c19, opts: opts_full(), quick_runs: 40_000, thorough_runs: 1_500_000, must_reach: &[], enum_dims: None },
            ],
            assumptions: vec![ASSUME_SIM],
        },
        PropertyCheck {
            id: "C06",
            level: "exploration",
            rule: "seeded scenarios over all first/max ttl, max-inflight, path lengths and arrival orders; online send-discipline monitor over the interleaved sequence of wire records and hand-overs; non-trivial/distinct as for C01",
            families: vec![
                Family { name: "swarm", gen: g_base, oracle: oracle::c06, opts: opts_light(), quick_runs: 200_000, thorough_runs: 8_000_000, must_reach: &["reach.probe_reached_target"], enum_dims: None },
                Family { name: "full-cycle", gen: g_full_cycle, oracle: oracle::c06, opts: opts_light(), quick_runs: 48, thorough_runs: 1_000, must_reach: &[], enum_dims: None },
                Family { name: "stable-wrap", gen: g_stable_wrap, oracle: oracle::c06, opts: opts_light(), quick_runs: 3_000, thorough_runs: 100_000, must_reach: &[], enum_dims: None },
                Family { name: "long-runs", gen: g_long_sched, oracle: oracle::c06, opts: opts_light(), quick_runs: 6_000, thorough_runs: 300_000, must_reach: &[], enum_dims: None },
                Family { name: "socket-faults", gen: g_sockfaults, oracle: oracle::c06, opts: opts_light(), quick_runs: 50_000, thorough_runs: 1_500_000, must_reach: &[], enum_dims: None },
            ],
            assumptions: vec![ASSUME_SIM, ASSUME_CLOCK],
        },
        PropertyCheck {
            id: "C08",
            level: "exploration",
            rule: "seeded scenarios with min/max/grace/read-timeout drawn independently (zeros included) and response delays around the thresholds; timing predicate evaluated on the exact clock values handed to the tracer; non-trivial/distinct as for C01",
            families: vec![
                Family { name: "timing", gen: g_timing, oracle: oracle::c08, opts: opts_light(), quick_runs: 150_000, thorough_runs: 6_000_000, must_reach: &[], enum_dims: None },
                Family { name: "timing-stalls", gen: g_timing_stalls, oracle: oracle::c08, opts: opts_light(), quick_runs: 50_000, thorough_runs: 2_000_000, must_reach: &["fault.stall"], enum_dims: None },
                Family { name: "timing-chatter", gen: g_timing_chatter, oracle: oracle::c08, opts: opts_light(), quick_runs: 30_000, thorough_runs: 1_000_000, must_reach: &["inject.chatter"], enum_dims: None },
                Family { name: "swarm", gen: g_base, oracle: oracle::c08, opts: opts_light(), quick_runs: 50_000, thorough_runs: 2_000_000, must_reach: &[], enum_dims: None },
            ],
            assumptions: vec![ASSUME_SIM, ASSUME_CLOCK],
        },
        PropertyCheck {
            id: "C09",
            level: "exploration",
            rule: "seeded scenarios with socket faults at random call sites (transient, address-in-use, fatal kinds) on top of network faults, plus the full enumeration of single scripted faults (configuration x site x phase x occurrence x errno; thorough tier also pairs) on a fault-free base run; round count / error hand-off / Failed / Skipped semantics; non-trivial/distinct as for C01",
            families: vec![
                Family { name: "socket-faults", gen: g_sockfaults, oracle: oracle::c09, opts: opts_light(), quick_runs: 150_000, thorough_runs: 6_000_000, must_reach: &[], enum_dims: None },
                Family { name: "timing", gen: g_timing, oracle: oracle::c09, opts: opts_light(), quick_runs: 30_000, thorough_runs: 1_000_000, must_reach: &[], enum_dims: None },
                Family { name: "swarm", gen: g_base, oracle: oracle::c09, opts: opts_light(), quick_runs: 50_000, thorough_runs: 2_000_000, must_reach: &[], enum_dims: None },
                Family { name: "single-fault-enumeration", gen: fault_enum_single, oracle: oracle::c09, opts: opts_light(), quick_runs: 0, thorough_runs: 0, must_reach: &[], enum_dims: Some(fault_enum_single_dims) },
                Family { name: "fault-pair-enumeration", gen: fault_enum_pair, oracle: oracle::c09, opts: opts_light(), quick_runs: 0, thorough_runs: 0, must_reach: &[], enum_dims: Some(fault_enum_pair_dims) },
            ],
            assumptions: vec![ASSUME_SIM, ASSUME_CLOCK, "the transient-error table (which errno at which call site marks a probe failed / re-issues it) is transcribed from the pinned commit and is part of the oracle"],
        },
        PropertyCheck {
            id: "C10",
            level: "exploration",
            rule: "seeded scenarios (stable and changing paths, silent targets, first-ttl > 1); hop-window invariants evaluated on a snapshot after every published round; non-trivial/distinct as for C01",
            families: vec![
                Family { name: "swarm", gen: g_base, oracle: oracle::c10, opts: opts_full(), quick_runs: 120_000, thorough_runs: 5_000_000, must_reach: &[], enum_dims: None },
                Family { name: "fault-free", gen: g_quiet, oracle: oracle::c10, opts: opts_full(), quick_runs: 40_000, thorough_runs: 1_500_000, must_reach: &[], enum_dims: None },
                Family { name: "quiet-route-change", gen: g_quiet_change, oracle: oracle::c10, opts: opts_full(), quick_runs: 60_000, thorough_runs: 2_000_000, must_reach: &["fault.route_change"], enum_dims: None },
                Family { name: "socket-faults", gen: g_sockfaults, oracle: oracle::c10, opts: opts_full(), quick_runs: 40_000, thorough_runs: 1_500_000, must_reach: &[], enum_dims: None },
                Family { name: "far-end-ttl", gen: g_far_end_ttl, oracle: oracle::c10, opts: opts_full(), quick_runs: 0, thorough_runs: 0, must_reach: &[], enum_dims: Some(far_end_dims) },
                Family { name: "clear-midway", gen: g_clear_midway, oracle: oracle::c10, opts: opts_full(), quick_runs: 30_000, thorough_runs: 1_000_000, must_reach: &[], enum_dims: None },
                Family { name: "synthetic-rounds", gen: g_synth, oracle: oracle::c10, opts: opts_full(), quick_runs: 20_000, thorough_runs: 600_000, must_reach: &["reach.synthetic_round"], enum_dims: None },
            ],
            assumptions: vec![ASSUME_SIM, ASSUME_CLOCK],
        },
        PropertyCheck {
            id: "C11",
            level: "exploration",
            rule: "every datagram of every seeded run is decoded by the independent RFC decoder and its checksums verified on the simulated wire; non-trivial/distinct as for C01",
            families: vec![
                Family { name: "swarm", gen: g_base, oracle: oracle::c11, opts: opts_light(), quick_runs: 150_000, thorough_runs: 6_000_000, must_reach: &[], enum_dims: None },
                Family { name: "socket-faults", gen: g_sockfaults, oracle: oracle::c11, opts: opts_light(), quick_runs: 30_000, thorough_runs: 1_000_000, must_reach: &[], enum_dims: None },
            ],
            assumptions: vec![ASSUME_SIM, "the independent decoder (wire.rs) is trusted; it shares no code with trippy-packet"],
        },
    ]
}
