//! Registry: which scenario families and oracles decide which property.

use crate::check::{Family, PropertyCheck};
use crate::gen::{gen_scenario, Profile};
use crate::oracle;
use crate::run::RunOpts;
use crate::scenario::Scenario;
use simcore::Tape;

fn opts_full() -> RunOpts {
    RunOpts { snapshots: true, clock_log: true }
}

fn opts_light() -> RunOpts {
    RunOpts { snapshots: false, clock_log: true }
}

fn g_base(t: &mut Tape) -> Scenario {
    gen_scenario(t, &Profile::base())
}

fn g_quiet(t: &mut Tape) -> Scenario {
    // fault-free configuration: run separately so that oracle relaxations under faults
    // never hide an ordinary bug
    let mut p = Profile::base();
    p.delivery_faults = false;
    p.late = false;
    p.stalls = false;
    p.hop_kinds = false;
    p.target_kinds = false;
    p.route_change = false;
    p.unreachable_hops = false;
    gen_scenario(t, &p)
}

fn g_sockfaults(t: &mut Tape) -> Scenario {
    let mut p = Profile::base();
    p.sock_faults = true;
    p.addr_in_use = true;
    p.max_rounds = 6;
    gen_scenario(t, &p)
}

fn g_timing(t: &mut Tape) -> Scenario {
    let mut p = Profile::base();
    p.wide_timing = true;
    p.stalls = false;
    p.max_path = 16;
    gen_scenario(t, &p)
}

fn g_timing_stalls(t: &mut Tape) -> Scenario {
    let mut p = Profile::base();
    p.wide_timing = true;
    p.stalls = true;
    p.max_path = 16;
    gen_scenario(t, &p)
}

fn g_inject(t: &mut Tape) -> Scenario {
    let mut p = Profile::base();
    p.inject = true;
    p.max_rounds = 10;
    gen_scenario(t, &p)
}

fn g_inject_quiet(t: &mut Tape) -> Scenario {
    // adversarial deliveries on an otherwise fault-free network
    let mut p = Profile::base();
    p.inject = true;
    p.delivery_faults = false;
    p.late = false;
    p.stalls = false;
    p.hop_kinds = false;
    p.route_change = false;
    p.max_rounds = 10;
    gen_scenario(t, &p)
}

fn g_lossless(t: &mut Tape) -> Scenario {
    // every hop answers exactly once per probe, in every quoting / extension shape
    let mut p = Profile::base();
    p.delivery_faults = false;
    p.late = false;
    p.stalls = false;
    p.hop_kinds = false;
    p.target_kinds = false;
    p.max_rounds = 6;
    gen_scenario(t, &p)
}

fn g_foreign(t: &mut Tape) -> Scenario {
    let mut p = Profile::base();
    p.inject = true;
    p.delivery_faults = false;
    p.late = false;
    p.max_rounds = 6;
    let mut sc = gen_scenario(t, &p);
    sc.inject.never_sent_pm = 0;
    sc.inject.replay_prev_round_pm = 0;
    sc.inject.unrelated_pm = 0;
    sc.inject.foreign_pm = sc.inject.foreign_pm.max(300);
    sc.inject.icmp_other_destination = true;
    sc
}

/// Long rounds that sweep the sequence space: every hop of a 253-router path answers.
fn sweep(t: &mut Tape, full: bool) -> Scenario {
    use crate::gen::executable_cells;
    use crate::scenario::*;
    use crate::wire::ErrorLayout;
    let cells = executable_cells();
    let cell = cells[t.pick(cells.len())];
    let v6 = t.chance(500);
    let len = if full { 253 } else { 40 + t.draw(214) };
    let routers: Vec<RouterCfg> = (1..=len)
        .map(|h| RouterCfg {
            addr: router_addr(v6, h, 0, 0),
            silent: false,
            rate_limit: 1,
            duplicate: false,
            extra_delay_ns: 0,
            quote: if h % 3 == 0 { Quote::Full } else { Quote::Min8 },
            layout: ErrorLayout::Plain,
            quoted_ttl: (h % 2) as u8,
            tos_rewrite: None,
            nat: None,
            unreachable_code: None,
        })
        .collect();
    let fixed = 1024 + t.draw(60000) as u16;
    let ports = match cell.ports {
        0 => Ports::None,
        1 => Ports::FixedSrc(fixed),
        2 => Ports::FixedDest(fixed),
        _ => Ports::FixedBoth(fixed, 33000 + t.draw(1000) as u16),
    };
    let initial_seq = if full { 0 } else { t.draw(64512) as u16 };
    let rounds = if full { 262 } else { 4 + t.draw(12) };
    let ms = 1_000_000u64;
    Scenario {
        tracer: TracerCfg {
            v6,
            proto: cell.proto,
            strat: cell.strat,
            ports,
            unprivileged: cell.unprivileged,
            ext_enabled: t.chance(500),
            first_ttl: 1,
            max_ttl: 254,
            max_inflight: 255,
            initial_seq,
            packet_size: if v6 { 48 + t.draw(200) as u16 } else { 28 + t.draw(200) as u16 },
            pattern: t.draw(256) as u8,
            tos: t.draw(256) as u8,
            trace_id: 1 + t.draw(65535) as u16,
            rounds,
            min_round_ns: 0,
            max_round_ns: 400 * ms,
            grace_ns: 0,
            read_timeout_ns: ms,
            tcp_connect_timeout_ns: 5 * ms,
            max_samples: 4,
            max_flows: 4,
            explicit_source: false,
            interface: None,
            source: default_source(v6),
            target: default_target(v6),
        },
        net: NetCfg {
            paths: vec![PathCfg { routers }],
            route_change: None,
            target: TargetCfg {
                behaviour: TargetBehaviour::Normal,
                reply_from: None,
                tcp_open: t.chance(500),
                quote: Quote::Min8,
                layout: ErrorLayout::Plain,
            },
            probe_loss_pm: 0,
            resp_loss_pm: 0,
            dup_pm: 0,
            extra_delay_pm: 0,
            late_pm: 0,
            hop_delay_ns: 2_000,
            jitter_ns: 0,
            ecmp_salt: t.draw(1_000_000),
        },
        inject: InjectCfg::default(),
        faults: FaultCfg {
            sock_pm: 0,
            sock_benign_pm: 0,
            scripted: Vec::new(),
            stall_pm: 0,
            stall_max_ns: 0,
            addr_in_use_pm: 0,
            tick_base_ns: 50,
            tick_jitter_ns: 0,
        },
        stable: true,
        light: true,
    }
}

fn g_sweep_sample(t: &mut Tape) -> Scenario {
    sweep(t, false)
}

fn g_sweep_full(t: &mut Tape) -> Scenario {
    sweep(t, true)
}

/// Long runs of short rounds from boundary initial sequences (sequence wrap, TCP port
/// collision storms, capacity exhaustion).
fn g_long(t: &mut Tape) -> Scenario {
    let mut p = Profile::base();
    p.boundary_sequences = true;
    p.addr_in_use = true;
    p.wide_ttl = false;
    p.max_path = 8;
    p.route_change = false;
    p.extensions = false;
    p.inject = false;
    let mut sc = gen_scenario(t, &p);
    let ms = 1_000_000u64;
    sc.tracer.rounds = 50 + t.skewed(1500);
    sc.tracer.max_round_ns = (1 + u64::from(t.draw(6))) * ms;
    sc.tracer.min_round_ns = 0;
    sc.tracer.grace_ns = 0;
    sc.tracer.read_timeout_ns = ms / 2;
    sc.tracer.tcp_connect_timeout_ns = 3 * ms;
    sc.net.hop_delay_ns = 10_000 + u64::from(t.draw(100)) * 1000;
    sc.net.late_pm = 0;
    sc.net.extra_delay_pm = 0;
    sc.faults.stall_pm = 0;
    sc.faults.tick_base_ns = 200;
    sc.faults.tick_jitter_ns = 0;
    // previous-round responses are re-delivered in the next round
    sc.inject.replay_prev_round_pm = if t.chance(700) { 1000 } else { 0 };
    sc.tracer.initial_seq = match t.weighted(&[30, 30, 20, 20]) {
        0 => 64511,
        1 => 63000 + t.draw(1512) as u16,
        2 => 64511 - t.draw(300) as u16,
        _ => t.draw(64512) as u16,
    };
    if sc.tracer.max_ttl < 30 {
        sc.tracer.max_ttl = 30;
    }
    sc.stable = false;
    sc.light = true;
    sc
}

const ASSUME_SIM: &str = "the simulated socket/platform layer and network model (SimSocket, SimPlatform, independent decoder) stand in for the kernel and the Internet; real SocketImpl/PlatformImpl are outside the claim";
const ASSUME_CLOCK: &str = "virtual time is monotone (clock_gettime interposed); backward clock steps are not injected";

#[must_use]
pub fn registry() -> Vec<PropertyCheck> {
    vec![
        PropertyCheck {
            id: "C01",
            level: "exploration",
            rule: "each run = one seeded scenario (tracer configuration cell x simulated topology x delivery-fault plan) executed by the real tracer over SimSocket in virtual time; a run is non-trivial when at least one fault kind fired or one reach counter moved; distinct = distinct abstract traces (hash of the sequence of (event kind, ttl, outcome class), times and addresses erased)",
            families: vec![
                Family { name: "swarm", gen: g_base, oracle: oracle::c01, opts: opts_full(), quick_runs: 150_000, thorough_runs: 6_000_000, must_reach: &["fault.probe_loss", "fault.duplicate", "fault.late_delivery", "reach.late_response_handed"] },
                Family { name: "fault-free", gen: g_quiet, oracle: oracle::c01, opts: opts_full(), quick_runs: 50_000, thorough_runs: 1_500_000, must_reach: &[] },
                Family { name: "socket-faults", gen: g_sockfaults, oracle: oracle::c01, opts: opts_full(), quick_runs: 50_000, thorough_runs: 1_500_000, must_reach: &[] },
            ],
            assumptions: vec![ASSUME_SIM, ASSUME_CLOCK],
        },
        PropertyCheck {
            id: "C02",
            level: "exploration",
            rule: "seeded scenarios on lossless networks where every hop answers once per probe in every quoting policy / RFC 4884 layout / TOS-TTL-checksum rewrite, long rounds sweeping the issuable sequence range per configuration cell (thorough: every sequence from 0 to the wrap in every cell), plus foreign quotations derived from genuine ones by changing exactly one identity field; non-trivial/distinct as for C01",
            families: vec![
                Family { name: "lossless", gen: g_lossless, oracle: oracle::c02, opts: opts_light(), quick_runs: 120_000, thorough_runs: 4_000_000, must_reach: &["reach.extension_emitted", "fault.tos_rewrite"] },
                Family { name: "foreign", gen: g_foreign, oracle: oracle::c02, opts: opts_light(), quick_runs: 80_000, thorough_runs: 3_000_000, must_reach: &["handed.Foreign"] },
                Family { name: "sequence-sweep", gen: g_sweep_sample, oracle: oracle::c02, opts: opts_light(), quick_runs: 1_500, thorough_runs: 20_000, must_reach: &[] },
                Family { name: "sequence-sweep-full", gen: g_sweep_full, oracle: oracle::c02, opts: opts_light(), quick_runs: 0, thorough_runs: 320, must_reach: &[] },
            ],
            assumptions: vec![ASSUME_SIM, "standards-conforming responders are those of the network model (RFC 792/1812/4443/4884 quoting policies listed in DESIGN.md)"],
        },
        PropertyCheck {
            id: "C03",
            level: "exploration",
            rule: "C01's workload plus adversarial deliveries at every phase of a round: duplicates, all previous-round responses re-delivered, foreign quotations (one identity field off), responses naming never-sent sequences inside/outside the window, unrelated ICMP; oracle = ground truth + reference model of the round bookkeeping fed with genuine responses only; non-trivial/distinct as for C01",
            families: vec![
                Family { name: "inject", gen: g_inject, oracle: oracle::c03, opts: opts_full(), quick_runs: 150_000, thorough_runs: 6_000_000, must_reach: &["handed.NeverSent", "handed.Foreign", "handed.Replay", "handed.Duplicate", "handed.Unrelated"] },
                Family { name: "inject-quiet", gen: g_inject_quiet, oracle: oracle::c03, opts: opts_full(), quick_runs: 60_000, thorough_runs: 2_000_000, must_reach: &[] },
            ],
            assumptions: vec![ASSUME_SIM, ASSUME_CLOCK, "a forged response naming a sequence that the tracer did issue before the forgery arrived is indistinguishable from a genuine one; such runs are excluded"],
        },
        PropertyCheck {
            id: "C07",
            level: "exploration",
            rule: "long seeded runs (50..1500 short rounds) from boundary and random initial sequences, both maximum-sequence regimes, TCP port-collision storms up to every bind failing; sequence arithmetic monitor over every send attempt plus re-delivery of all previous-round responses; non-trivial/distinct as for C01",
            families: vec![
                Family { name: "long-runs", gen: g_long, oracle: oracle::c07, opts: opts_light(), quick_runs: 6_000, thorough_runs: 300_000, must_reach: &[] },
                Family { name: "socket-faults", gen: g_sockfaults, oracle: oracle::c07, opts: opts_light(), quick_runs: 40_000, thorough_runs: 1_500_000, must_reach: &[] },
            ],
            assumptions: vec![ASSUME_SIM, ASSUME_CLOCK],
        },
        PropertyCheck {
            id: "C06",
            level: "exploration",
            rule: "seeded scenarios over all first/max ttl, max-inflight, path lengths and arrival orders; online send-discipline monitor over the interleaved sequence of wire records and hand-overs; non-trivial/distinct as for C01",
            families: vec![
                Family { name: "swarm", gen: g_base, oracle: oracle::c06, opts: opts_light(), quick_runs: 200_000, thorough_runs: 8_000_000, must_reach: &["reach.probe_reached_target"] },
                Family { name: "socket-faults", gen: g_sockfaults, oracle: oracle::c06, opts: opts_light(), quick_runs: 50_000, thorough_runs: 1_500_000, must_reach: &[] },
            ],
            assumptions: vec![ASSUME_SIM, ASSUME_CLOCK],
        },
        PropertyCheck {
            id: "C08",
            level: "exploration",
            rule: "seeded scenarios with min/max/grace/read-timeout drawn independently (zeros included) and response delays around the thresholds; timing predicate evaluated on the exact clock values handed to the tracer; non-trivial/distinct as for C01",
            families: vec![
                Family { name: "timing", gen: g_timing, oracle: oracle::c08, opts: opts_light(), quick_runs: 150_000, thorough_runs: 6_000_000, must_reach: &[] },
                Family { name: "timing-stalls", gen: g_timing_stalls, oracle: oracle::c08, opts: opts_light(), quick_runs: 50_000, thorough_runs: 2_000_000, must_reach: &["fault.stall"] },
                Family { name: "swarm", gen: g_base, oracle: oracle::c08, opts: opts_light(), quick_runs: 50_000, thorough_runs: 2_000_000, must_reach: &[] },
            ],
            assumptions: vec![ASSUME_SIM, ASSUME_CLOCK],
        },
        PropertyCheck {
            id: "C09",
            level: "exploration",
            rule: "seeded scenarios with socket faults at random call sites (transient, address-in-use, fatal kinds) on top of network faults; round count / error hand-off / Failed / Skipped semantics; non-trivial/distinct as for C01",
            families: vec![
                Family { name: "socket-faults", gen: g_sockfaults, oracle: oracle::c09, opts: opts_light(), quick_runs: 150_000, thorough_runs: 6_000_000, must_reach: &[] },
                Family { name: "swarm", gen: g_base, oracle: oracle::c09, opts: opts_light(), quick_runs: 50_000, thorough_runs: 2_000_000, must_reach: &[] },
            ],
            assumptions: vec![ASSUME_SIM, ASSUME_CLOCK, "the transient-error table (which errno at which call site marks a probe failed / re-issues it) is transcribed from the pinned commit and is part of the oracle"],
        },
        PropertyCheck {
            id: "C10",
            level: "exploration",
            rule: "seeded scenarios (stable and changing paths, silent targets, first-ttl > 1); hop-window invariants evaluated on a snapshot after every published round; non-trivial/distinct as for C01",
            families: vec![
                Family { name: "swarm", gen: g_base, oracle: oracle::c10, opts: opts_full(), quick_runs: 120_000, thorough_runs: 5_000_000, must_reach: &[] },
                Family { name: "fault-free", gen: g_quiet, oracle: oracle::c10, opts: opts_full(), quick_runs: 40_000, thorough_runs: 1_500_000, must_reach: &[] },
            ],
            assumptions: vec![ASSUME_SIM, ASSUME_CLOCK],
        },
        PropertyCheck {
            id: "C11",
            level: "exploration",
            rule: "every datagram of every seeded run is decoded by the independent RFC decoder and its checksums verified on the simulated wire; non-trivial/distinct as for C01",
            families: vec![
                Family { name: "swarm", gen: g_base, oracle: oracle::c11, opts: opts_light(), quick_runs: 150_000, thorough_runs: 6_000_000, must_reach: &[] },
                Family { name: "socket-faults", gen: g_sockfaults, oracle: oracle::c11, opts: opts_light(), quick_runs: 30_000, thorough_runs: 1_000_000, must_reach: &[] },
            ],
            assumptions: vec![ASSUME_SIM, "the independent decoder (wire.rs) is trusted; it shares no code with trippy-packet"],
        },
    ]
}
