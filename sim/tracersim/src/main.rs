use simcore::{env_seed, EXIT_HARNESS};
use tracersim::check::{run_check, run_replay};
use tracersim::props::registry;

fn usage() -> ! {
    eprintln!("usage: tracersim check <Cxx> <quick|thorough> | tracersim replay <Cxx> <file> | tracersim list");
    std::process::exit(EXIT_HARNESS);
}

fn main() {
    // millions of short runs allocate and free the same few structures: keep glibc from
    // returning memory to the kernel (and mapping it again) on every run
    unsafe {
        libc::mallopt(libc::M_MMAP_THRESHOLD, 1 << 30);
        libc::mallopt(libc::M_TRIM_THRESHOLD, 1 << 30);
        libc::mallopt(libc::M_TOP_PAD, 64 << 20);
    }
    let args: Vec<String> = std::env::args().collect();
    let reg = registry();
    match args.get(1).map(String::as_str) {
        Some("list") => {
            for p in &reg {
                println!("{} {}", p.id, p.families.iter().map(|f| f.name).collect::<Vec<_>>().join(","));
            }
        }
        Some("check") => {
            let (Some(id), Some(tier)) = (args.get(2), args.get(3)) else { usage() };
            let Some(pc) = reg.iter().find(|p| p.id == id) else {
                eprintln!("harness error: no tracersim check for {id}");
                std::process::exit(EXIT_HARNESS);
            };
            if tier != "quick" && tier != "thorough" {
                usage();
            }
            // a panic of the harness itself is a harness error, never a verdict
            let rc = std::panic::catch_unwind(|| run_check(pc, tier, env_seed())).unwrap_or_else(|_| {
                eprintln!("harness error: the check driver panicked");
                EXIT_HARNESS
            });
            std::process::exit(rc);
        }
        Some("dump") => {
            let (Some(id), Some(path)) = (args.get(2), args.get(3)) else { usage() };
            let Some(pc) = reg.iter().find(|p| p.id == id) else { usage() };
            std::process::exit(tracersim::check::run_dump(pc, path));
        }
        Some("replay") => {
            let (Some(id), Some(path)) = (args.get(2), args.get(3)) else { usage() };
            let Some(pc) = reg.iter().find(|p| p.id == id) else {
                eprintln!("harness error: no tracersim check for {id}");
                std::process::exit(EXIT_HARNESS);
            };
            std::process::exit(run_replay(pc, path));
        }
        _ => usage(),
    }
}
