//! The check driver: batches of seeded runs, shrinking, replay files, evidence.

use crate::oracle::Violation;
use crate::run::{run_scenario, RunEnd, RunOpts, RunRecord};
use crate::scenario::Scenario;
use serde_json::{json, Value};
use simcore::evidence::{Counters, Evidence};
use simcore::findings::Findings;
use simcore::{pool, Tape, EXIT_HARNESS, EXIT_OK, EXIT_VIOLATION};
use std::collections::{BTreeMap, HashSet};
use std::sync::atomic::AtomicBool;


/// One scenario family of a property.
pub struct Family {
    pub name: &'static str,
    pub gen: fn(&mut Tape) -> Scenario,
    pub oracle: fn(&RunRecord) -> Vec<Violation>,
    pub opts: RunOpts,
    pub quick_runs: u64,
    pub thorough_runs: u64,
    /// Counters that must be non-zero in a batch (reach probes that matter to the property).
    pub must_reach: &'static [&'static str],
    /// Enumerated family: run `i` reads the mixed-radix digits of `i` over these dimensions
    /// as its first draws (all later draws read 0); the batch enumerates the whole product
    /// (quick tier: every `quick_stride`-th point of the last dimension... see `enum_runs`).
    pub enum_dims: Option<fn(&str) -> Vec<u32>>,
}

pub struct PropertyCheck {
    pub id: &'static str,
    pub level: &'static str,
    pub rule: &'static str,
    pub families: Vec<Family>,
    pub assumptions: Vec<&'static str>,
}

/// Compact outcome of one run.
struct Summary {
    violations: Vec<Violation>,
    counters: Counters,
    abs_hash: u64,
    full_hash: u64,
    nontrivial: bool,
    rounds: u64,
    probes: u64,
    sim_ns: u64,
    cell: String,
    end: String,
    sample: Option<Value>,
    harness_error: Option<String>,
}

fn end_key(e: &RunEnd) -> String {
    match e {
        RunEnd::Ok => "ok".into(),
        RunEnd::Rejected(_) => "rejected".into(),
        RunEnd::Err(t, _) => format!("err:{}", t.split(':').next().unwrap_or("")),
        RunEnd::Panic(_) => "panic".into(),
    }
}

fn abstract_sample(rec: &RunRecord) -> Value {
    let rounds: Vec<Value> = rec
        .rounds
        .iter()
        .take(6)
        .map(|r| {
            let s: String = r
                .probes
                .iter()
                .map(|p| match p {
                    trippy_core::ProbeStatus::Complete(_) => 'C',
                    trippy_core::ProbeStatus::Awaited(_) => 'A',
                    trippy_core::ProbeStatus::Failed(_) => 'F',
                    trippy_core::ProbeStatus::Skipped => 'S',
                    trippy_core::ProbeStatus::NotSent => 'N',
                })
                .collect();
            json!({"round": r.idx, "largest_ttl": r.largest_ttl, "reason": format!("{:?}", r.reason), "probes": s})
        })
        .collect();
    json!({
        "scenario": rec.sc.to_json(),
        "end": format!("{:?}", rec.end),
        "rounds_published": rec.rounds.len(),
        "first_rounds": rounds,
        "probes_on_wire": rec.world.wires.len(),
        "responses_generated": rec.world.resps.len(),
        "socket_calls": rec.calls_total,
        "simulated_ms": rec.t_end.saturating_sub(rec.t_start) / 1_000_000,
        "faults_fired": rec.world.counters.0.iter().filter(|(k, v)| k.starts_with("fault.") && **v > 0).map(|(k, v)| format!("{k}={v}")).collect::<Vec<_>>(),
    })
}

fn execute(fam: &Family, tape: Tape) -> RunRecord {
    let mut tape = tape;
    let sc = (fam.gen)(&mut tape);
    run_scenario(sc, tape, fam.opts)
}

fn summarize(fam: &Family, prop: &str, rec: &RunRecord, want_sample: bool) -> Summary {
    let mut violations: Vec<Violation> = (fam.oracle)(rec).into_iter().filter(|v| v.prop == prop).collect();
    // a response at least two rounds old whose 16-bit sequence the current round has issued
    // again is indistinguishable from a response to the current probe (`ambiguous_rounds`);
    // the oracles of C01-C03 skip such rounds themselves, the ground-truth based ones of
    // these properties are not consulted for such a run
    if matches!(prop, "C06" | "C08" | "C10" | "C14" | "C19") && !violations.is_empty() && rec.sc.synth.is_none() && !crate::oracle::ambiguous_rounds(rec).is_empty() {
        violations.retain(|v| v.sig.contains(".panic.") || v.sig.contains("never-published") || v.sig.contains("no-termination"));
    }
    // a tracer that panics inside the code a property is about breaks that property, whatever
    // else the oracle looks at (the oracles of C02-C04, C07, C09, C14, C16 say so themselves)
    if let crate::run::RunEnd::Panic(p) = &rec.end {
        let scope: Option<&[&str]> = match prop {
            "C01" => Some(&["/trippy-core/", "/trippy-packet/"]),
            "C06" | "C08" => Some(&["/strategy.rs"]),
            // (the path length a round reports is worked out in strategy.rs)
            "C10" => Some(&["/state.rs", "/strategy.rs"]),
            "C11" => Some(&["/net/", "/trippy-packet/"]),
            "C15" => Some(&["/flows.rs", "/state.rs"]),
            "C19" => Some(&["/state.rs", "/net/ipv4.rs", "/strategy.rs"]),
            _ => None,
        };
        if let Some(files) = scope {
            if files.iter().any(|f| p.contains(f)) && !violations.iter().any(|v| v.sig.contains(".panic.")) {
                violations.push(Violation::new(
                    match prop {
                        "C01" => "C01",
                        "C06" => "C06",
                        "C08" => "C08",
                        "C10" => "C10",
                        "C11" => "C11",
                        "C15" => "C15",
                        _ => "C19",
                    },
                    format!("{}.panic.{}", prop.to_lowercase(), crate::oracle::panic_loc(p)),
                    format!("the tracer panicked: {p}"),
                ));
            }
        }
    }
    let mut counters = rec.world.counters.clone();
    counters.add(&format!("end.{}", end_key(&rec.end)), 1);
    let nontrivial = counters
        .0
        .iter()
        .any(|(k, v)| *v > 0 && (k.starts_with("fault.") || k.starts_with("reach.")));
    Summary {
        violations,
        abs_hash: rec.world.abs_hash.finish(),
        full_hash: rec.world.full_hash.finish(),
        nontrivial,
        rounds: rec.rounds.len() as u64,
        probes: rec.world.wires.len() as u64,
        sim_ns: rec.t_end.saturating_sub(rec.t_start),
        cell: rec.sc.tracer.cell(),
        end: end_key(&rec.end),
        sample: if want_sample { Some(abstract_sample(rec)) } else { None },
        // a run that was cut off is reported by the oracles as not terminating; it is a
        // harness error only when no oracle is there to say so
        harness_error: None,
        counters,
    }
}

/// Mixed-radix digits of `i` over `dims` (first dimension most significant).
#[must_use]
pub fn digits(i: u64, dims: &[u32]) -> Vec<u32> {
    let mut out = vec![0u32; dims.len()];
    let mut rest = i;
    for (k, d) in dims.iter().enumerate().rev() {
        let d = u64::from((*d).max(1));
        out[k] = (rest % d) as u32;
        rest /= d;
    }
    out
}

fn sanitize(s: &str) -> String {
    s.chars()
        .map(|c| if c.is_ascii_alphanumeric() || c == '-' || c == '.' { c } else { '_' })
        .collect()
}

/// Signature of the violation of property `prop` in a replayed tape (first one), if any.
fn replay_signature(fam: &Family, prop: &str, tape: &[u32], want: Option<&str>) -> Option<String> {
    let rec = execute(fam, Tape::from_values(tape.to_vec()));
    let viols: Vec<Violation> = (fam.oracle)(&rec).into_iter().filter(|v| v.prop == prop).collect();
    match want {
        Some(w) => viols.iter().find(|v| v.sig == w).map(|v| v.sig.clone()),
        None => viols.first().map(|v| v.sig.clone()),
    }
}

fn write_replay(prop: &str, fam_idx: usize, fam: &Family, seed: u64, sig: &str, tape: &[u32], shrink_runs: usize, original_len: usize) -> Result<String, String> {
    #[allow(non_snake_case)]
    let VERIF_DIR = simcore::verif_dir();
    let rec = execute(fam, Tape::from_values(tape.to_vec()));
    let viols: Vec<Violation> = (fam.oracle)(&rec).into_iter().filter(|v| v.prop == prop && v.sig == sig).collect();
    let detail = viols.first().map_or(String::new(), |v| v.detail.clone());
    let faults: Vec<Value> = rec
        .world
        .faults
        .iter()
        .map(|f| json!({"call": f.call_idx, "site": format!("{:?}", f.site), "errno": f.errno, "round": f.round_idx}))
        .collect();
    let doc = json!({
        "engine": "tracersim",
        "property": prop,
        "family": fam.name,
        "family_index": fam_idx,
        "seed": seed,
        "signature": sig,
        "detail": detail,
        "tape": tape,
        "original_tape_len": original_len,
        "shrink_executions": shrink_runs,
        "scenario": rec.sc.to_json(),
        "socket_faults_fired": faults,
        "network_faults_fired": rec.world.counters.0.iter().filter(|(k, v)| k.starts_with("fault.") && **v > 0).map(|(k, v)| format!("{k}={v}")).collect::<Vec<_>>(),
        "end": format!("{:?}", rec.end),
        "rounds": abstract_sample(&rec)["first_rounds"].clone(),
        "event_hash": format!("{:016x}", rec.world.full_hash.finish()),
        "abstract_hash": format!("{:016x}", rec.world.abs_hash.finish()),
        "profile": profile_name(),
    });
    let dir = format!("{VERIF_DIR}/replays");
    std::fs::create_dir_all(&dir).map_err(|e| e.to_string())?;
    let path = format!("{dir}/{prop}-{}-{seed}.json", sanitize(sig));
    std::fs::write(&path, serde_json::to_string_pretty(&doc).map_err(|e| e.to_string())? + "\n").map_err(|e| e.to_string())?;
    Ok(path)
}

#[must_use]
pub fn profile_name() -> &'static str {
    if cfg!(debug_assertions) {
        "checked"
    } else {
        "ship"
    }
}

/// Runs in flight: worker thread -> (start, family index, seed or enumeration index,
/// enumerated?).  A watchdog thread reports a run that does not return: code that loops
/// without making a socket call is outside the reach of the call budget.
static IN_FLIGHT: std::sync::Mutex<Vec<(std::thread::ThreadId, std::time::Instant, usize, u64, bool, libc::clockid_t, f64)>> = std::sync::Mutex::new(Vec::new());

/// Seconds on clock `clk`, read with the system call itself (the libc symbol is the
/// simulator's virtual clock on threads that run a simulation).
fn raw_clock_secs(clk: libc::clockid_t) -> Option<f64> {
    let mut ts = libc::timespec { tv_sec: 0, tv_nsec: 0 };
    let rc = unsafe { libc::syscall(libc::SYS_clock_gettime, clk, &mut ts as *mut libc::timespec) };
    (rc == 0).then(|| ts.tv_sec as f64 + ts.tv_nsec as f64 / 1e9)
}

fn flight_begin(fam: usize, seed: u64, enumerated: bool) {
    // the CPU-time clock of this worker thread: what the watchdog measures a run by, so that a
    // machine busy with other work does not make a slow run look like one that never returns
    let mut clk: libc::clockid_t = 0;
    let have = unsafe { libc::pthread_getcpuclockid(libc::pthread_self(), &mut clk) } == 0;
    let cpu0 = if have { raw_clock_secs(clk).unwrap_or(0.0) } else { -1.0 };
    if let Ok(mut v) = IN_FLIGHT.lock() {
        let id = std::thread::current().id();
        v.retain(|e| e.0 != id);
        v.push((id, std::time::Instant::now(), fam, seed, enumerated, clk, cpu0));
    }
}

fn flight_end() {
    if let Ok(mut v) = IN_FLIGHT.lock() {
        let id = std::thread::current().id();
        v.retain(|e| e.0 != id);
    }
}

/// Start the watchdog of a check: a run that has not returned after `VERIF_RUN_HANG_SECS`
/// (default 30) seconds of CPU time on its worker thread is reported as a violation `<prop>.no-return` with a
/// replay file naming the family and seed, and the process exits with the violation code
/// (the stuck thread cannot be stopped).
fn start_watchdog(prop: &'static str, tier: String, batch_seed: u64, families: Vec<&'static str>) {
    let limit = std::env::var("VERIF_RUN_HANG_SECS").ok().and_then(|s| s.parse::<u64>().ok()).unwrap_or(30);
    std::thread::spawn(move || loop {
        std::thread::sleep(std::time::Duration::from_millis(500));
        // a run that has burnt `limit` seconds of CPU time on its thread (or, failing that
        // measure, twenty times as much wall-clock time) is not going to return
        let stuck = IN_FLIGHT.lock().ok().and_then(|v| {
            v.iter()
                .find(|e| {
                    let wall = e.1.elapsed().as_secs();
                    let cpu = if e.6 >= 0.0 { raw_clock_secs(e.5).map(|now| now - e.6) } else { None };
                    match cpu {
                        Some(c) => c >= limit as f64 || wall >= limit * 20,
                        None => wall >= limit * 4,
                    }
                })
                .copied()
        });
        if let Some((_, start, fam, seed, enumerated, _, _)) = stuck {
            let dir = simcore::verif_dir();
            let sig = format!("{}.no-return", prop.to_lowercase());
            let path = format!("{dir}/replays/{prop}-{sig}-{seed}.json");
            let doc = json!({
                "engine": "tracersim",
                "property": prop,
                "family": families.get(fam).copied().unwrap_or("?"),
                "family_index": fam,
                "seed": seed,
                "enumerated": enumerated,
                "signature": sig,
                "kind": "no-return",
                "detail": format!("the run did not return: {limit} s of CPU time on its thread used up ({} s of wall-clock time; no socket call in between: the call budget does not apply); replay executes it again under a watchdog", start.elapsed().as_secs()),
                "tier": tier,
                "batch_seed": batch_seed,
                "profile": profile_name(),
            });
            let _ = std::fs::create_dir_all(format!("{dir}/replays"));
            let _ = std::fs::write(&path, serde_json::to_string_pretty(&doc).unwrap_or_default());
            // minimal evidence: the batch could not be completed
            let ev = json!({
                "property_id": prop,
                "tier": tier,
                "seed": batch_seed,
                "level": "exploration",
                "coverage": {"evaluations": 0, "distinct_nontrivial": 0, "rule": "the batch was cut short: one run did not return (see the replay)", "samples": [], "replays": [path.clone()]},
                "assumptions": [],
                "wall_s": start.elapsed().as_secs_f64(),
                "violations": 1,
            });
            let _ = std::fs::write(format!("{dir}/evidence/{prop}.json"), serde_json::to_string_pretty(&ev).unwrap_or_default());
            println!("  violation {sig} (family {} seed {seed}): the run did not return within {limit} s", families.get(fam).copied().unwrap_or("?"));
            println!("VIOLATION property={prop} replay={path}");
            println!("{prop} VIOLATED: a run did not return");
            std::process::exit(EXIT_VIOLATION);
        }
    });
}

/// Run the check of one property.  Returns the process exit code.
pub fn run_check(pc: &PropertyCheck, tier: &str, batch_seed: u64) -> i32 {
    start_watchdog(pc.id, tier.to_string(), batch_seed, pc.families.iter().map(|f| f.name).collect());
    #[allow(non_snake_case)]
    let VERIF_DIR = simcore::verif_dir();
    let started = std::time::Instant::now();
    let findings = match Findings::load(&format!("{VERIF_DIR}/known-findings.jsonl")) {
        Ok(f) => f,
        Err(e) => {
            eprintln!("harness error: {e}");
            return EXIT_HARNESS;
        }
    };
    println!("check {} tier={tier} VERIF_SEED={batch_seed} profile={} workers={}", pc.id, profile_name(), pool::workers());
    let scale: f64 = std::env::var("VERIF_SCALE").ok().and_then(|s| s.parse().ok()).unwrap_or(1.0);
    let mut total = Counters::default();
    let mut distinct: HashSet<u64> = HashSet::new();
    let mut cells: BTreeMap<String, u64> = BTreeMap::new();
    let mut ends: BTreeMap<String, u64> = BTreeMap::new();
    let mut evaluations = 0u64;
    let mut rounds = 0u64;
    let mut probes = 0u64;
    let mut sim_ns = 0u128;
    let mut samples: Vec<Value> = Vec::new();
    // signature -> (family idx, run index, seed, detail, count)
    let mut found: BTreeMap<String, (usize, u64, u64, String, u64)> = BTreeMap::new();
    let mut harness_errors: Vec<String> = Vec::new();
    let mut nondeterministic = 0u64;
    let mut recheck = 0u64;
    let mut fam_stats: Vec<Value> = Vec::new();
    for (fi, fam) in pc.families.iter().enumerate() {
        let dims: Option<Vec<u32>> = fam.enum_dims.map(|f| f(tier));
        if dims.as_ref().is_some_and(Vec::is_empty) {
            continue; // not part of this tier
        }
        let n = match &dims {
            Some(d) => d.iter().map(|x| u64::from(*x)).product::<u64>(),
            None => ((if tier == "thorough" { fam.thorough_runs } else { fam.quick_runs }) as f64 * scale).ceil() as u64,
        };
        let stop = AtomicBool::new(false);
        let fam_start = std::time::Instant::now();
        let mut fam_counters = Counters::default();
        let mut fam_distinct: HashSet<u64> = HashSet::new();
        let recheck_every: u64 = if tier == "thorough" { 100 } else { 500 };
        pool::run_indexed(
            n,
            pool::workers(),
            64,
            |i| {
                let seed = if dims.is_some() { i } else { simcore::run_seed(batch_seed, pc.id, fi as u32, i) };
                flight_begin(fi, seed, dims.is_some());
                let rec = match &dims {
                    Some(d) => execute(fam, Tape::from_values(digits(i, d))),
                    None => execute(fam, Tape::from_seed(seed)),
                };
                let s = summarize(fam, pc.id, &rec, i < 2);
                // permanent determinism guard: re-execute a sample from its recorded tape
                let again = if i % recheck_every == 0 {
                    let rec2 = execute(fam, Tape::from_values(rec.tape_record.clone()));
                    Some(rec2.world.full_hash.finish() == s.full_hash && rec2.tape_record == rec.tape_record)
                } else {
                    None
                };
                flight_end();
                (seed, s, again)
            },
            |i, (seed, s, again)| {
                evaluations += 1;
                rounds += s.rounds;
                probes += s.probes;
                sim_ns += u128::from(s.sim_ns);
                total.merge(&s.counters);
                fam_counters.merge(&s.counters);
                if s.nontrivial {
                    distinct.insert(s.abs_hash ^ simcore::mix64(fi as u64));
                    fam_distinct.insert(s.abs_hash);
                }
                *cells.entry(s.cell).or_insert(0) += 1;
                *ends.entry(s.end).or_insert(0) += 1;
                if let Some(sample) = s.sample {
                    if samples.len() < 4 {
                        samples.push(json!({"family": fam.name, "seed": seed, "run": sample}));
                    }
                }
                if let Some(e) = s.harness_error {
                    harness_errors.push(format!("family {} seed {seed}: {e}", fam.name));
                }
                if let Some(ok) = again {
                    recheck += 1;
                    if !ok {
                        nondeterministic += 1;
                        harness_errors.push(format!("family {} seed {seed}: re-execution diverged", fam.name));
                    }
                }
                for v in s.violations {
                    let e = found.entry(v.sig.clone()).or_insert((fi, i, seed, v.detail.clone(), 0));
                    e.4 += 1;
                }
            },
            &stop,
        );
        let el = fam_start.elapsed().as_secs_f64();
        println!(
            "  family {:<22} runs={n:<8} {:.1}s ({:.0} runs/s) distinct-nontrivial={}",
            fam.name,
            el,
            n as f64 / el.max(1e-9),
            fam_distinct.len()
        );
        let mut unreached = Vec::new();
        for key in fam.must_reach {
            if fam_counters.get(key) == 0 {
                unreached.push((*key).to_string());
                println!("  NOTE: reach counter {key} stayed at zero in family {}", fam.name);
            }
        }
        fam_stats.push(json!({"family": fam.name, "runs": n, "wall_s": el, "distinct_nontrivial": fam_distinct.len(), "unreached": unreached}));
    }
    // classify what was found
    let mut new_violations: Vec<(String, usize, u64, String, u64)> = Vec::new();
    let mut known_seen: BTreeMap<String, u64> = BTreeMap::new();
    for (sig, (fi, _i, seed, detail, count)) in &found {
        if let Some(f) = findings.matching(pc.id, sig) {
            *known_seen.entry(f.signature.clone()).or_insert(0) += count;
        } else {
            new_violations.push((sig.clone(), *fi, *seed, detail.clone(), *count));
        }
    }
    for f in findings.open_for(pc.id) {
        let n = known_seen.get(&f.signature).copied().unwrap_or(0);
        println!("KNOWN-FINDING: property={} {} [signature {} observed in {n} runs]", pc.id, f.what, f.signature);
    }
    let mut exit = EXIT_OK;
    let mut replays: Vec<String> = Vec::new();
    for (sig, fi, seed, detail, count) in &new_violations {
        let fam = &pc.families[*fi];
        let original = match fam.enum_dims {
            Some(f) => execute(fam, Tape::from_values(digits(*seed, &f(tier)))).tape_record,
            None => execute(fam, Tape::from_seed(*seed)).tape_record,
        };
        let (small, used) = simcore::shrink::shrink_timed(&original, sig, 600, std::time::Duration::from_secs(15), |t| replay_signature(fam, pc.id, t, Some(sig)));
        match write_replay(pc.id, *fi, fam, *seed, sig, &small, used, original.len()) {
            Ok(path) => {
                println!("  violation {sig} ({count} runs; first seed {seed}; tape {} -> {} draws): {detail}", original.len(), small.len());
                println!("VIOLATION property={} replay={path}", pc.id);
                replays.push(path);
            }
            Err(e) => {
                eprintln!("harness error: cannot write replay: {e}");
                return EXIT_HARNESS;
            }
        }
        exit = EXIT_VIOLATION;
    }
    let wall = started.elapsed().as_secs_f64();
    let mut extra = serde_json::Map::new();
    extra.insert("engine".into(), json!("tracersim"));
    extra.insert("profile".into(), json!(profile_name()));
    extra.insert("rounds_published".into(), json!(rounds));
    extra.insert("probes_on_wire".into(), json!(probes));
    extra.insert("simulated_seconds".into(), json!((sim_ns / 1_000_000) as f64 / 1000.0));
    extra.insert("runs_per_hour".into(), json!((evaluations as f64 / wall.max(1e-9) * 3600.0) as u64));
    extra.insert("seeds".into(), json!(format!("run i of family f uses hash(VERIF_SEED={batch_seed}, {}, f, i)", pc.id)));
    extra.insert("counters".into(), total.to_json());
    extra.insert("configuration_cells".into(), json!(cells));
    extra.insert("run_endings".into(), json!(ends));
    extra.insert("families".into(), Value::Array(fam_stats));
    if let Ok(m) = crate::oracle::ORACLE_REACH.lock() {
        if !m.is_empty() {
            extra.insert("oracle_reach".into(), json!(m.iter().map(|(k, v)| ((*k).to_string(), *v)).collect::<std::collections::BTreeMap<String, u64>>()));
        }
    }
    extra.insert("determinism_rechecks".into(), json!({"re_executed": recheck, "diverged": nondeterministic}));
    extra.insert(
        "known_findings_observed".into(),
        json!(known_seen),
    );
    extra.insert("replays".into(), json!(replays));
    extra.insert(
        "components".into(),
        json!({
            "real": ["trippy-core Builder/Tracer/Strategy/TracerState/Channel/Ipv4/Ipv6/State/FlowRegistry", "trippy-packet (all views the receive and dispatch paths reach)"],
            "stubbed": ["SocketImpl (system calls) -> SimSocket", "PlatformImpl -> SimPlatform", "the network, the clock (clock_gettime interposed)", "privilege dropping (skipped)"],
        }),
    );
    let ev = Evidence {
        property_id: pc.id.to_string(),
        tier: tier.to_string(),
        seed: batch_seed,
        level: pc.level.to_string(),
        evaluations,
        distinct_nontrivial: distinct.len() as u64,
        rule: pc.rule.to_string(),
        samples,
        exhaustive: false,
        extra,
        assumptions: pc.assumptions.iter().map(|s| (*s).to_string()).collect(),
        wall_s: wall,
        violations: new_violations.len() as u64,
    };
    if let Err(e) = ev.write(&format!("{VERIF_DIR}/evidence/{}.json", pc.id)) {
        eprintln!("harness error: {e}");
        return EXIT_HARNESS;
    }
    if !harness_errors.is_empty() {
        for e in harness_errors.iter().take(5) {
            eprintln!("harness error: {e}");
        }
        return EXIT_HARNESS;
    }
    println!(
        "{} {}: {evaluations} runs, {rounds} rounds, {probes} probes, {} distinct non-trivial traces, {:.1}s, violations={}",
        pc.id,
        if exit == EXIT_OK { "held" } else { "VIOLATED" },
        distinct.len(),
        wall,
        new_violations.len()
    );
    exit
}

/// Print a narrative of the run a replay file denotes (triage aid).
pub fn run_dump(pc: &PropertyCheck, path: &str) -> i32 {
    let Ok(text) = std::fs::read_to_string(path) else { return EXIT_HARNESS };
    let Ok(doc) = serde_json::from_str::<Value>(&text) else { return EXIT_HARNESS };
    let fam_name = doc["family"].as_str().unwrap_or("");
    let Some(fam) = pc.families.iter().find(|f| f.name == fam_name) else { return EXIT_HARNESS };
    let tape: Vec<u32> = doc["tape"].as_array().map(|a| a.iter().filter_map(|v| v.as_u64().map(|x| x as u32)).collect()).unwrap_or_default();
    let rec = execute(fam, Tape::from_values(tape));
    println!("{}", serde_json::to_string_pretty(&rec.sc.to_json()).unwrap_or_default());
    println!("end: {:?}", rec.end);
    let w = &rec.world;
    #[derive(Debug)]
    enum Item<'a> { Attempt(&'a crate::world::Attempt), Hand(&'a crate::world::RespRec), Fault(&'a crate::world::FaultRec), Publish(&'a crate::run::RoundRec) }
    let mut items: Vec<(u64, u8, Item)> = Vec::new();
    for a in &w.attempts { items.push((a.call_first, 1, Item::Attempt(a))); }
    for r in &w.resps { if let Some(h) = r.handed { items.push((h.call_idx, 2, Item::Hand(r))); } }
    for f in &w.faults { items.push((f.call_idx, 0, Item::Fault(f))); }
    for r in &rec.rounds { items.push((r.calls_end, 3, Item::Publish(r))); }
    items.sort_by_key(|(c, o, _)| (*c, *o));
    for (call, _, it) in items {
        match it {
            Item::Attempt(a) => {
                let wire = match a.outcome { crate::world::AttemptOutcome::OnWire(id) => w.wires.get(id), _ => None };
                println!("call {call:6} SEND   round {} ttl {:?} ports {:?}->{:?} outcome {:?} seq {:?}", a.round_idx, a.ttl, a.sport, a.dport, a.outcome, wire.and_then(|x| crate::oracle::wire_sequence(&rec, x)));
            }
            Item::Hand(r) => {
                println!("call {call:6} HAND   resp {} {:?} {:?} code {} from {} for wire {:?} (sent in round {:?}) arrive {} note {}", r.id, r.class, r.kind, r.code, r.responder, r.wire_id, r.wire_id.map(|x| w.wires[x].round_idx), r.t_arrive, r.note);
                if let Some(b) = &r.kept {
                    println!("              bytes[{}] {}", b.len(), b.iter().take(96).map(|x| format!("{x:02x}")).collect::<Vec<_>>().join(""));
                }
            }
            Item::Fault(f) => println!("call {call:6} FAULT  {:?} errno {} ({}) round {}", f.site, f.errno, crate::world::errno_name(f.errno), f.round_idx),
            Item::Publish(r) => println!("call {call:6} PUBLISH round {} largest {} {:?} {}", r.idx, r.largest_ttl, r.reason, r.probes.iter().map(|p| match p { trippy_core::ProbeStatus::Complete(_) => 'C', trippy_core::ProbeStatus::Awaited(_) => 'A', trippy_core::ProbeStatus::Failed(_) => 'F', trippy_core::ProbeStatus::Skipped => 'S', trippy_core::ProbeStatus::NotSent => 'N' }).collect::<String>()),
        }
    }
    if std::env::var_os("VERIF_DUMP_ENTRIES").is_some() {
        for r in &rec.rounds {
            for (i, p) in r.probes.iter().enumerate() {
                if let trippy_core::ProbeStatus::Complete(c) = p {
                    println!("round {} entry {i}: ttl {} seq {} host {} sent {} recv {}", r.idx, c.ttl.0, c.sequence.0, c.host, crate::clock::to_ns(c.sent), crate::clock::to_ns(c.received));
                }
            }
        }
        for (i, c) in w.calls.iter().enumerate() {
            println!("call {} {:?} enter {}", i + 1, c.site, c.t_enter);
        }
    }
    for v in (fam.oracle)(&rec) { println!("VIOL {} {}: {}", v.prop, v.sig, v.detail); }
    EXIT_OK
}

/// Replay a file written by `run_check`; exit 1 when the violation reproduces exactly.
pub fn run_replay(pc: &PropertyCheck, path: &str) -> i32 {
    let text = match std::fs::read_to_string(path) {
        Ok(t) => t,
        Err(e) => {
            eprintln!("harness error: {path}: {e}");
            return EXIT_HARNESS;
        }
    };
    let doc: Value = match serde_json::from_str(&text) {
        Ok(d) => d,
        Err(e) => {
            eprintln!("harness error: {path}: {e}");
            return EXIT_HARNESS;
        }
    };
    let fam_name = doc["family"].as_str().unwrap_or("");
    let Some(fam) = pc.families.iter().find(|f| f.name == fam_name) else {
        eprintln!("harness error: unknown family {fam_name}");
        return EXIT_HARNESS;
    };
    if doc["kind"].as_str() == Some("no-return") {
        // execute the run again under a watchdog: it is a violation if it still does not return
        let seed = doc["seed"].as_u64().unwrap_or(0);
        let fam_idx = pc.families.iter().position(|f| f.name == fam_name).unwrap_or(0);
        let tier = doc["tier"].as_str().unwrap_or("quick").to_string();
        let tape = if doc["enumerated"].as_bool() == Some(true) {
            match fam.enum_dims {
                Some(f) => Tape::from_values(digits(seed, &f(&tier))),
                None => Tape::from_seed(seed),
            }
        } else {
            Tape::from_seed(seed)
        };
        let limit = std::env::var("VERIF_RUN_HANG_SECS").ok().and_then(|s| s.parse::<u64>().ok()).unwrap_or(30);
        let path2 = path.to_string();
        let prop = pc.id;
        let done = std::sync::Arc::new(AtomicBool::new(false));
        let done2 = done.clone();
        std::thread::spawn(move || {
            let start = std::time::Instant::now();
            let cpu0 = raw_clock_secs(libc::CLOCK_PROCESS_CPUTIME_ID).unwrap_or(0.0);
            // (CPU time of the process, which runs nothing but this one run)
            while raw_clock_secs(libc::CLOCK_PROCESS_CPUTIME_ID).map_or(start.elapsed().as_secs_f64() / 4.0, |c| c - cpu0) < limit as f64 && start.elapsed().as_secs() < limit * 20 {
                std::thread::sleep(std::time::Duration::from_millis(200));
                if done2.load(std::sync::atomic::Ordering::SeqCst) {
                    return;
                }
            }
            println!("replay {path2}: the run did not return within {limit} s");
            println!("VIOLATION property={prop} replay={path2}");
            std::process::exit(EXIT_VIOLATION);
        });
        let _ = fam_idx;
        let rec = execute(fam, tape);
        done.store(true, std::sync::atomic::Ordering::SeqCst);
        println!("replay {path}: the run returns on this tree (end={:?}, {} rounds)", rec.end, rec.rounds.len());
        return EXIT_OK;
    }
    let tape: Vec<u32> = doc["tape"]
        .as_array()
        .map(|a| a.iter().filter_map(|v| v.as_u64().map(|x| x as u32)).collect())
        .unwrap_or_default();
    let want_sig = doc["signature"].as_str().unwrap_or("");
    let want_hash = doc["event_hash"].as_str().unwrap_or("");
    let rec = execute(fam, Tape::from_values(tape));
    let viols: Vec<Violation> = (fam.oracle)(&rec).into_iter().filter(|v| v.prop == pc.id).collect();
    let got_hash = format!("{:016x}", rec.world.full_hash.finish());
    println!("replay {path}: end={:?} rounds={} event_hash={got_hash}", rec.end, rec.rounds.len());
    for v in &viols {
        println!("  {}: {}", v.sig, v.detail);
    }
    if viols.iter().any(|v| v.sig == want_sig) {
        if got_hash != want_hash && doc["profile"].as_str() == Some(profile_name()) {
            println!("note: the violation reproduced but the event log differs from the recorded one ({got_hash} != {want_hash}): the tree changed since the file was written");
        }
        println!("VIOLATION property={} replay={path}", pc.id);
        EXIT_VIOLATION
    } else {
        println!("replay did not reproduce signature {want_sig} on this tree");
        EXIT_OK
    }
}
