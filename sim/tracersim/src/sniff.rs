//! A passive sniffer on the simulated wire: walks every public view and accessor of
//! `trippy-packet` (through `Debug`, which calls every getter, and the explicit
//! payload / extension / iterator entry points) over a datagram and over the sub-slices
//! the receive path would look at.  This is input enumeration riding on the simulator's
//! traffic (the accessor half of C04), said plainly.

use std::fmt::Write;
use std::panic::{catch_unwind, AssertUnwindSafe};
use trippy_packet::icmp_extension::extension_header::ExtensionHeaderPacket;
use trippy_packet::icmp_extension::extension_object::ExtensionObjectPacket;
use trippy_packet::icmp_extension::extension_structure::ExtensionsPacket;
use trippy_packet::icmp_extension::mpls_label_stack::MplsLabelStackPacket;
use trippy_packet::icmp_extension::mpls_label_stack_member::MplsLabelStackMemberPacket;
use trippy_packet::ipv4::Ipv4Packet;
use trippy_packet::ipv6::Ipv6Packet;
use trippy_packet::tcp::TcpPacket;
use trippy_packet::udp::UdpPacket;

/// Outcome of sniffing one buffer.
#[derive(Debug, Default, Clone)]
pub struct SniffReport {
    pub views: u64,
    pub iterations: u64,
    /// `(view type, what)` of the first failure.
    pub failure: Option<(String, String)>,
}

macro_rules! view {
    ($rep:expr, $buf:expr, $scratch:expr, $name:expr, $ty:ty, |$v:ident| $body:block) => {
        if $rep.failure.is_none() {
            let r = catch_unwind(AssertUnwindSafe(|| {
                if let Ok($v) = <$ty>::new_view($buf) {
                    $scratch.clear();
                    let _ = write!($scratch, "{:?}", $v);
                    $body
                    true
                } else {
                    false
                }
            }));
            match r {
                Ok(true) => $rep.views += 1,
                Ok(false) => {}
                Err(_) => $rep.failure = Some(($name.to_string(), crate::run::take_panic_info().unwrap_or_default())),
            }
        }
    };
}

fn walk_extensions(rep: &mut SniffReport, ext: &[u8], scratch: &mut String) {
    view!(rep, ext, scratch, "ExtensionHeaderPacket", ExtensionHeaderPacket<'_>, |_h| {});
    if rep.failure.is_some() {
        return;
    }
    let r = catch_unwind(AssertUnwindSafe(|| {
        let mut iters = 0u64;
        if let Ok(e) = ExtensionsPacket::new_view(ext) {
            let _ = e.header();
            let _ = e.packet();
            for obj in e.objects() {
                iters += 1;
                if iters > ext.len() as u64 / 4 + 1 {
                    return Err(iters);
                }
                if let Ok(o) = ExtensionObjectPacket::new_view(obj) {
                    let _ = (o.get_length(), o.get_class_num(), o.get_class_subtype());
                    let p = o.payload();
                    if let Ok(m) = MplsLabelStackPacket::new_view(p) {
                        let mut k = 0u64;
                        for member in m.members() {
                            k += 1;
                            if k > p.len() as u64 / 4 + 1 {
                                return Err(k);
                            }
                            if let Ok(mm) = MplsLabelStackMemberPacket::new_view(member) {
                                let _ = (mm.get_label(), mm.get_exp(), mm.get_bos(), mm.get_ttl());
                            }
                        }
                        iters += k;
                    }
                }
            }
        }
        Ok(iters)
    }));
    match r {
        Ok(Ok(n)) => rep.iterations += n,
        Ok(Err(n)) => rep.failure = Some(("ExtensionObjectIter".into(), format!("iteration did not stop after {n} steps over {} octets", ext.len()))),
        Err(_) => rep.failure = Some(("ExtensionsPacket".into(), crate::run::take_panic_info().unwrap_or_default())),
    }
}

fn disjoint_within(whole: &[u8], a: &[u8], b: Option<&[u8]>) -> bool {
    let w0 = whole.as_ptr() as usize;
    let w1 = w0 + whole.len();
    let inside = |s: &[u8]| {
        let s0 = s.as_ptr() as usize;
        s.is_empty() || (s0 >= w0 && s0 + s.len() <= w1)
    };
    if !inside(a) {
        return false;
    }
    if let Some(b) = b {
        if !inside(b) {
            return false;
        }
        let (a0, a1) = (a.as_ptr() as usize, a.as_ptr() as usize + a.len());
        let (b0, b1) = (b.as_ptr() as usize, b.as_ptr() as usize + b.len());
        if !a.is_empty() && !b.is_empty() && a0 < b1 && b0 < a1 {
            return false;
        }
    }
    true
}

/// Sniff an ICMP message (v4 or v6): generic view, typed views, payload/extension split.
fn walk_icmp(rep: &mut SniffReport, icmp: &[u8], v6: bool, scratch: &mut String) {
    if v6 {
        use trippy_packet::icmpv6::destination_unreachable::DestinationUnreachablePacket;
        use trippy_packet::icmpv6::echo_reply::EchoReplyPacket;
        use trippy_packet::icmpv6::echo_request::EchoRequestPacket;
        use trippy_packet::icmpv6::time_exceeded::TimeExceededPacket;
        use trippy_packet::icmpv6::IcmpPacket;
        view!(rep, icmp, scratch, "icmpv6::IcmpPacket", IcmpPacket<'_>, |p| {
            let _ = (p.get_icmp_type(), p.get_icmp_code(), p.get_checksum(), p.packet());
        });
        view!(rep, icmp, scratch, "icmpv6::EchoRequestPacket", EchoRequestPacket<'_>, |p| {
            let _ = (p.get_identifier(), p.get_sequence(), p.payload());
        });
        view!(rep, icmp, scratch, "icmpv6::EchoReplyPacket", EchoReplyPacket<'_>, |p| {
            let _ = (p.get_identifier(), p.get_sequence(), p.payload());
        });
        let mut nested: Vec<(usize, usize)> = Vec::new();
        let mut exts: Vec<(usize, usize)> = Vec::new();
        let mut bad_split = false;
        view!(rep, icmp, scratch, "icmpv6::TimeExceededPacket", TimeExceededPacket<'_>, |p| {
            let (pl, ex) = (p.payload(), p.extension());
            let _ = (p.get_length(), p.payload_raw());
            if !disjoint_within(icmp, pl, ex) {
                bad_split = true;
            }
            if !pl.is_empty() {
                nested.push((pl.as_ptr() as usize - icmp.as_ptr() as usize, pl.len()));
            }
            if let Some(e) = ex {
                if !e.is_empty() {
                    exts.push((e.as_ptr() as usize - icmp.as_ptr() as usize, e.len()));
                }
            }
        });
        view!(rep, icmp, scratch, "icmpv6::DestinationUnreachablePacket", DestinationUnreachablePacket<'_>, |p| {
            let (pl, ex) = (p.payload(), p.extension());
            let _ = p.get_length();
            if !disjoint_within(icmp, pl, ex) {
                bad_split = true;
            }
            if !pl.is_empty() {
                nested.push((pl.as_ptr() as usize - icmp.as_ptr() as usize, pl.len()));
            }
            if let Some(e) = ex {
                if !e.is_empty() {
                    exts.push((e.as_ptr() as usize - icmp.as_ptr() as usize, e.len()));
                }
            }
        });
        finish_icmp(rep, icmp, nested, exts, bad_split, scratch);
    } else {
        use trippy_packet::icmpv4::destination_unreachable::DestinationUnreachablePacket;
        use trippy_packet::icmpv4::echo_reply::EchoReplyPacket;
        use trippy_packet::icmpv4::echo_request::EchoRequestPacket;
        use trippy_packet::icmpv4::time_exceeded::TimeExceededPacket;
        use trippy_packet::icmpv4::IcmpPacket;
        view!(rep, icmp, scratch, "icmpv4::IcmpPacket", IcmpPacket<'_>, |p| {
            let _ = (p.get_icmp_type(), p.get_icmp_code(), p.get_checksum(), p.packet());
        });
        view!(rep, icmp, scratch, "icmpv4::EchoRequestPacket", EchoRequestPacket<'_>, |p| {
            let _ = (p.get_identifier(), p.get_sequence(), p.payload());
        });
        view!(rep, icmp, scratch, "icmpv4::EchoReplyPacket", EchoReplyPacket<'_>, |p| {
            let _ = (p.get_identifier(), p.get_sequence(), p.payload());
        });
        let mut nested: Vec<(usize, usize)> = Vec::new();
        let mut exts: Vec<(usize, usize)> = Vec::new();
        let mut bad_split = false;
        view!(rep, icmp, scratch, "icmpv4::TimeExceededPacket", TimeExceededPacket<'_>, |p| {
            let (pl, ex) = (p.payload(), p.extension());
            let _ = (p.get_length(), p.payload_raw());
            if !disjoint_within(icmp, pl, ex) {
                bad_split = true;
            }
            if !pl.is_empty() {
                nested.push((pl.as_ptr() as usize - icmp.as_ptr() as usize, pl.len()));
            }
            if let Some(e) = ex {
                if !e.is_empty() {
                    exts.push((e.as_ptr() as usize - icmp.as_ptr() as usize, e.len()));
                }
            }
        });
        view!(rep, icmp, scratch, "icmpv4::DestinationUnreachablePacket", DestinationUnreachablePacket<'_>, |p| {
            let (pl, ex) = (p.payload(), p.extension());
            let _ = p.get_length();
            if !disjoint_within(icmp, pl, ex) {
                bad_split = true;
            }
            if !pl.is_empty() {
                nested.push((pl.as_ptr() as usize - icmp.as_ptr() as usize, pl.len()));
            }
            if let Some(e) = ex {
                if !e.is_empty() {
                    exts.push((e.as_ptr() as usize - icmp.as_ptr() as usize, e.len()));
                }
            }
        });
        finish_icmp(rep, icmp, nested, exts, bad_split, scratch);
    }
}

fn finish_icmp(rep: &mut SniffReport, icmp: &[u8], nested: Vec<(usize, usize)>, exts: Vec<(usize, usize)>, bad_split: bool, scratch: &mut String) {
    if bad_split && rep.failure.is_none() {
        rep.failure = Some(("split_payload_extension".into(), "payload and extension overlap or leave the message".into()));
    }
    for (off, len) in nested {
        if off + len <= icmp.len() {
            walk_ip(rep, &icmp[off..off + len], scratch, 1);
        }
    }
    for (off, len) in exts {
        if off + len <= icmp.len() {
            walk_extensions(rep, &icmp[off..off + len], scratch);
        }
    }
}

/// Sniff a buffer as an IP datagram (both families are tried) and whatever it nests.
fn walk_ip(rep: &mut SniffReport, buf: &[u8], scratch: &mut String, depth: u8) {
    let mut v4_payload: Option<(usize, usize, u8)> = None;
    view!(rep, buf, scratch, "Ipv4Packet", Ipv4Packet<'_>, |p| {
        let pl = p.payload();
        let _ = (p.get_header_length(), p.get_total_length(), p.get_options_raw());
        if !pl.is_empty() {
            v4_payload = Some((pl.as_ptr() as usize - buf.as_ptr() as usize, pl.len(), buf[9]));
        }
    });
    let mut v6_payload: Option<(usize, usize, u8)> = None;
    view!(rep, buf, scratch, "Ipv6Packet", Ipv6Packet<'_>, |p| {
        let pl = p.payload();
        let _ = (p.get_payload_length(), p.get_next_header());
        if !pl.is_empty() {
            v6_payload = Some((pl.as_ptr() as usize - buf.as_ptr() as usize, pl.len(), buf[6]));
        }
    });
    for (found, v6) in [(v4_payload, false), (v6_payload, true)] {
        let Some((off, len, proto)) = found else { continue };
        if off + len > buf.len() {
            continue;
        }
        let l4 = &buf[off..off + len];
        view!(rep, l4, scratch, "UdpPacket", UdpPacket<'_>, |p| {
            let _ = (p.get_source(), p.get_destination(), p.get_length(), p.get_checksum(), p.payload());
        });
        view!(rep, l4, scratch, "TcpPacket", TcpPacket<'_>, |p| {
            let _ = (p.get_source(), p.get_destination(), p.get_data_offset(), p.get_options_raw(), p.payload());
        });
        if depth == 0 || proto == 1 || proto == 58 {
            if depth < 2 {
                walk_icmp_depth(rep, l4, v6, scratch, depth);
            }
        }
    }
}

fn walk_icmp_depth(rep: &mut SniffReport, icmp: &[u8], v6: bool, scratch: &mut String, depth: u8) {
    if depth == 0 {
        walk_icmp(rep, icmp, v6, scratch);
    } else {
        // nested ICMP (the quoted echo request): typed views only
        if v6 {
            use trippy_packet::icmpv6::echo_request::EchoRequestPacket;
            view!(rep, icmp, scratch, "icmpv6::EchoRequestPacket", EchoRequestPacket<'_>, |p| {
                let _ = (p.get_identifier(), p.get_sequence(), p.payload());
            });
        } else {
            use trippy_packet::icmpv4::echo_request::EchoRequestPacket;
            view!(rep, icmp, scratch, "icmpv4::EchoRequestPacket", EchoRequestPacket<'_>, |p| {
                let _ = (p.get_identifier(), p.get_sequence(), p.payload());
            });
        }
    }
}

/// Sniff what the receive socket handed to the tracer: an IPv4 datagram, or an ICMPv6
/// message.
#[must_use]
pub fn sniff_received(buf: &[u8], v6: bool) -> SniffReport {
    let mut rep = SniffReport::default();
    let mut scratch = String::with_capacity(512);
    if v6 {
        walk_icmp(&mut rep, buf, true, &mut scratch);
    } else {
        walk_ip(&mut rep, buf, &mut scratch, 0);
    }
    // every typed view over the raw buffer as well (arbitrary buffer of at least the
    // minimum header size)
    walk_extensions(&mut rep, buf, &mut scratch);
    view!(rep, buf, &mut scratch, "UdpPacket", UdpPacket<'_>, |p| {
        let _ = p.payload();
    });
    view!(rep, buf, &mut scratch, "TcpPacket", TcpPacket<'_>, |p| {
        let _ = (p.get_options_raw(), p.payload());
    });
    view!(rep, buf, &mut scratch, "ExtensionObjectPacket", ExtensionObjectPacket<'_>, |p| {
        let _ = p.payload();
    });
    if rep.failure.is_none() {
        let r = catch_unwind(AssertUnwindSafe(|| {
            if let Ok(p) = MplsLabelStackPacket::new_view(buf) {
                let _ = (p.packet(), p.members().take(buf.len() + 1).count());
            }
        }));
        if r.is_err() {
            rep.failure = Some(("MplsLabelStackPacket".into(), crate::run::take_panic_info().unwrap_or_default()));
        }
    }
    rep
}
