//! The simulated network: what happens to a probe once it is on the wire.

use crate::clock;
use crate::scenario::{NatCfg, Proto, Quote, RouterCfg, Strat, TargetBehaviour};
use crate::wire::{self, ErrorLayout, Transport};
use crate::world::{
    AttemptOutcome, RespClass, RespKind, RespRec, SockKind, TcpState, WireRec, World,
};
use std::net::{IpAddr, Ipv4Addr, Ipv6Addr, SocketAddr};

/// The fields the C04 sweep overwrites: (name, width in octets).
pub const MUT_FIELDS: &[(&str, u8)] = &[
    ("outer-ihl", 1),
    ("icmp-type", 1),
    ("icmp-code", 1),
    ("rfc4884-length", 1),
    ("nested-version-ihl", 1),
    ("nested-protocol", 1),
    ("nested-total-length", 2),
    ("l4-length-or-offset", 2),
    ("l4-byte0", 1),
    ("ext-version", 1),
    ("ext-object-length", 2),
    ("ext-object-class", 1),
    ("ext-object-ctype", 1),
    ("ext-second-object-length", 2),
    ("outer-total-length", 2),
    ("outer-protocol", 1),
];

/// Values tried for 16-bit fields.
pub const MUT_VALUES_16: &[u16] = &[
    0, 1, 3, 4, 5, 7, 8, 9, 12, 19, 20, 21, 27, 28, 29, 39, 40, 41, 47, 48, 127, 128, 129, 255, 256, 257, 511, 512, 1023, 1024, 1025, 0x7fff, 0x8000, 0xfffe, 0xffff,
];

/// Overwrite one field of a delivered datagram. `icmp_off`: offset of the ICMP message;
/// `quote_off`: offset of the quoted datagram; `ext_off`: offset of the extension structure.
pub fn apply_mutation(bytes: &mut Vec<u8>, v6: bool, icmp_off: usize, quote_off: usize, ext_off: Option<usize>, m: crate::scenario::Mutation) {
    let nested_l4 = quote_off + if v6 { 40 } else { 20 };
    let put8 = |b: &mut Vec<u8>, off: usize, v: u32| {
        if off < b.len() {
            b[off] = v as u8;
        }
    };
    let put16 = |b: &mut Vec<u8>, off: usize, v: u32| {
        if off + 1 < b.len() {
            b[off..off + 2].copy_from_slice(&(v as u16).to_be_bytes());
        }
    };
    match m.field {
        0 => {
            if !v6 {
                let hi = bytes[0] & 0xf0;
                put8(bytes, 0, u32::from(hi) | (m.value & 0x0f));
            }
        }
        1 => put8(bytes, icmp_off, m.value),
        2 => put8(bytes, icmp_off + 1, m.value),
        3 => put8(bytes, icmp_off + if v6 { 4 } else { 5 }, m.value),
        4 => put8(bytes, quote_off, m.value),
        5 => put8(bytes, quote_off + if v6 { 6 } else { 9 }, m.value),
        6 => put16(bytes, quote_off + if v6 { 4 } else { 2 }, m.value),
        7 => {
            // udp length / tcp data offset+flags / icmp id
            let proto = bytes.get(quote_off + if v6 { 6 } else { 9 }).copied().unwrap_or(0);
            if proto == wire::PROTO_TCP {
                put16(bytes, nested_l4 + 12, m.value);
            } else {
                put16(bytes, nested_l4 + 4, m.value);
            }
        }
        8 => put8(bytes, nested_l4, m.value),
        9 => {
            if let Some(e) = ext_off {
                put8(bytes, e, m.value);
            }
        }
        10 => {
            if let Some(e) = ext_off {
                put16(bytes, e + 4, m.value);
            }
        }
        11 => {
            if let Some(e) = ext_off {
                put8(bytes, e + 6, m.value);
            }
        }
        12 => {
            if let Some(e) = ext_off {
                put8(bytes, e + 7, m.value);
            }
        }
        13 => {
            if let Some(e) = ext_off {
                // the object after the first one (first object length as encoded)
                let first = usize::from(u16::from_be_bytes([
                    bytes.get(e + 4).copied().unwrap_or(0),
                    bytes.get(e + 5).copied().unwrap_or(0),
                ]));
                put16(bytes, e + 4 + first, m.value);
            }
        }
        14 => {
            if !v6 {
                put16(bytes, 2, m.value);
            }
        }
        15 => {
            if !v6 {
                put8(bytes, 9, m.value);
            }
        }
        _ => {}
    }
    if let Some(t) = m.trunc {
        bytes.truncate(usize::from(t));
    }
}

/// Maximum RFC 4884 original-datagram size expressible for ICMPv4 (255 words).
const MAX_4884_V4: usize = 255 * 4;

impl World {
    /// A datagram was passed to `send_to` on socket `sock`.
    pub fn datagram_on_wire(&mut self, sock: usize, buf: &[u8], addr: SocketAddr) {
        let (bytes, hdr_by_tracer) = self.wire_bytes(sock, buf, addr);
        self.put_on_wire(sock, bytes, hdr_by_tracer);
    }

    /// The IP datagram that `send_to(buf, addr)` on `sock` puts on the wire.
    pub fn wire_bytes(&mut self, sock: usize, buf: &[u8], addr: SocketAddr) -> (Vec<u8>, bool) {
        let s = self.socks[sock].clone();
        if s.hdrincl && !s.v6 {
            let mut b = buf.to_vec();
            // the kernel fills in the header checksum of header-included datagrams
            wire::fix_ipv4_checksum(&mut b);
            (b, true)
        } else if s.v6 && matches!(s.kind, SockKind::IcmpSend | SockKind::UdpSend) && s.raw {
            let proto = if s.kind == SockKind::IcmpSend {
                wire::PROTO_ICMPV6
            } else {
                wire::PROTO_UDP
            };
            (self.synth_ip(sock, proto, buf, addr.ip()), false)
        } else if s.v6 && s.kind == SockKind::IcmpSend {
            (self.synth_ip(sock, wire::PROTO_ICMPV6, buf, addr.ip()), false)
        } else {
            // datagram UDP socket: the kernel builds the UDP header
            let sport = s.bound.map_or(0, |b| b.port());
            let udp = wire::build_udp(self.host_addr(), addr.ip(), sport, addr.port(), buf);
            (self.synth_ip(sock, wire::PROTO_UDP, &udp, addr.ip()), false)
        }
    }

    /// `connect` was called on stream socket `sock`: the kernel emits a SYN.
    pub fn tcp_syn_on_wire(&mut self, sock: usize, addr: SocketAddr) {
        let sport = self.socks[sock].bound.map_or(0, |b| b.port());
        let isn = (simcore::mix64(self.wires.len() as u64 ^ 0x5151) & 0xffff_ffff) as u32;
        let syn = wire::build_tcp_syn(self.host_addr(), addr.ip(), sport, addr.port(), isn);
        let bytes = self.synth_ip(sock, wire::PROTO_TCP, &syn, addr.ip());
        self.put_on_wire(sock, bytes, false);
    }

    fn put_on_wire(&mut self, sock: usize, bytes: Vec<u8>, hdr_by_tracer: bool) {
        let id = self.wires.len();
        let decoded = wire::decode_probe(&bytes);
        let attempt = self.socks[sock].attempt.unwrap_or(usize::MAX);
        if attempt != usize::MAX {
            self.attempts[attempt].outcome = AttemptOutcome::OnWire(id);
        }
        let ttl = decoded.as_ref().map_or(0, |d| u64::from(d.ttl));
        self.counters.add("probes_on_wire", 1);
        self.ev(2, ttl, id as u64);
        self.wires.push(WireRec {
            id,
            attempt,
            round_idx: self.round_idx,
            t_sent: clock::now(),
            bytes,
            decoded,
            hdr_by_tracer,
            responses: Vec::new(),
            path_idx: 0,
            sock_kind: self.socks[sock].kind,
        });
        self.route(id, Some(sock));
        self.maybe_inject(id);
    }

    fn flow_hash(&self, d: &wire::DecodedProbe) -> u64 {
        let salt = u64::from(self.sc.net.ecmp_salt);
        match d.transport {
            Transport::Icmp => simcore::mix64(
                (u64::from(d.icmp_id) << 32) ^ (u64::from(d.icmp_seq) << 8) ^ salt.rotate_left(17),
            ),
            Transport::Udp => simcore::mix64(
                (u64::from(d.sport) << 32) ^ (u64::from(d.dport) << 8) ^ 17 ^ salt.rotate_left(17),
            ),
            Transport::Tcp => simcore::mix64(
                (u64::from(d.sport) << 32) ^ (u64::from(d.dport) << 8) ^ 6 ^ salt.rotate_left(17),
            ),
        }
    }

    fn rate_limited(&mut self, addr: IpAddr, k: u32) -> bool {
        if k <= 1 {
            return false;
        }
        for (a, n) in &mut self.rate_counters {
            if *a == addr {
                let v = *n;
                *n += 1;
                return v % k != 0;
            }
        }
        self.rate_counters.push((addr, 1));
        false
    }

    /// Decide the fate of wire record `id`.
    fn route(&mut self, id: usize, sock: Option<usize>) {
        let Ok(d) = self.wires[id].decoded.clone() else {
            self.counters.add("net.malformed_probe_dropped", 1);
            return;
        };
        if d.dst != self.sc.tracer.target {
            self.counters.add("net.misaddressed_probe_dropped", 1);
            return;
        }
        if self.sc.net.probe_loss_pm > 0 && self.tape.chance(self.sc.net.probe_loss_pm) {
            self.counters.add("fault.probe_loss", 1);
            self.ev(10, u64::from(d.ttl), 0);
            return;
        }
        let npaths = self.paths_now.len().max(1);
        let path_idx = (self.flow_hash(&d) % npaths as u64) as usize;
        self.wires[id].path_idx = path_idx;
        if npaths > 1 {
            self.counters.add(&format!("reach.ecmp_path_{}", path_idx.min(7)), 1);
        }
        let routers: Vec<RouterCfg> = self
            .paths_now
            .get(path_idx)
            .map(|p| p.routers.clone())
            .unwrap_or_default();
        let mut dg = self.wires[id].bytes.clone();
        let ttl = u32::from(d.ttl);
        if ttl == 0 {
            self.counters.add("net.zero_ttl_probe_dropped", 1);
            return;
        }
        for (i, r) in routers.iter().enumerate() {
            let dist = i as u32 + 1;
            let remaining = ttl - (dist - 1);
            if let Some((at, words)) = self.sc.net.ip_options {
                if at == dist && dg[0] >> 4 == 4 && dg[0] & 0x0f == 5 && words > 0 {
                    insert_ip_options(&mut dg, words.min(10));
                    self.counters.add("fault.ip_options_inserted", 1);
                }
            }
            if remaining <= 1 {
                // expires at router `dist`
                if let Some(nat) = r.nat {
                    if nat.before_quote {
                        self.apply_nat(&mut dg, nat, dist);
                    }
                }
                if r.silent {
                    self.counters.add("fault.silent_hop", 1);
                    return;
                }
                if self.rate_limited(r.addr, r.rate_limit) {
                    self.counters.add("fault.rate_limited", 1);
                    return;
                }
                self.icmp_error_from(id, &dg, r.addr, dist, RespKind::TimeExceeded, 0, r.quote, &r.layout, r.quoted_ttl, r.extra_delay_ns, r.duplicate);
                return;
            }
            if let Some(code) = r.unreachable_code {
                if !r.silent {
                    self.counters.add("reach.blackhole_unreachable", 1);
                    self.icmp_error_from(id, &dg, r.addr, dist, RespKind::Unreachable, code, r.quote, &r.layout, (remaining - 1).min(255) as u8, r.extra_delay_ns, r.duplicate);
                }
                return;
            }
            // forwarded
            if let Some(tos) = r.tos_rewrite {
                set_tos(&mut dg, tos);
                self.counters.add("fault.tos_rewrite", 1);
            }
            if let Some(nat) = r.nat {
                if !nat.before_quote || remaining > 1 {
                    self.apply_nat(&mut dg, nat, dist);
                }
            }
        }
        // reached the target
        let dist = routers.len() as u32 + 1;
        self.counters.add("reach.probe_reached_target", 1);
        let t = self.sc.net.target.clone();
        if t.behaviour == TargetBehaviour::Silent {
            self.counters.add("fault.silent_target", 1);
            return;
        }
        let from = t.reply_from.unwrap_or(self.sc.tracer.target);
        match d.transport {
            Transport::Icmp => self.echo_reply_from(id, &dg, from, dist),
            Transport::Udp => {
                let code = if d.v6 { 4 } else { 3 };
                let remaining = (ttl - (dist - 1)).min(255) as u8;
                self.icmp_error_from(id, &dg, from, dist, RespKind::Unreachable, code, t.quote, &t.layout, remaining, 0, false);
            }
            Transport::Tcp => {
                let Some(sock) = sock else { return };
                if let Some(code) = t.tcp_reject_code {
                    // a filter answers the SYN with an ICMP error; the connecting socket sees
                    // the error too (EHOSTUNREACH), which the tracer ignores
                    let remaining = (ttl - (dist - 1)).min(255) as u8;
                    let at = clock::now() + self.sc.net.hop_delay_ns * u64::from(dist) * 2;
                    self.counters.add("reach.tcp_rejected_by_icmp", 1);
                    self.icmp_error_from(id, &dg, from, dist, RespKind::Unreachable, code, t.quote, &t.layout, remaining, 0, false);
                    // "port unreachable" is a hard error for a connecting socket (Linux maps
                    // it to ECONNREFUSED): the same probe is then answered twice, first by
                    // the ICMP message on the raw socket, then by the refusal on its own
                    // socket; every other code leaves the socket with an error the tracer
                    // ignores
                    let port_unreachable = if d.v6 { code == 4 } else { code == 3 };
                    if port_unreachable {
                        self.counters.add("reach.tcp_refused_after_icmp", 1);
                        let rid = self.deliver(RespRec {
                            id: 0,
                            wire_id: Some(id),
                            class: RespClass::Genuine,
                            kind: RespKind::Rst,
                            code: 0,
                            responder: self.sc.tracer.target,
                            quoted_tos: None,
                            exts: None,
                            ambiguous_ext: false,
                            rfc4884_len: 0,
                            quoted_udp_csum: None,
                            t_arrive: at,
                            handed: None,
                            bytes: None,
                            src: None,
                            note: "tcp-refused-after-icmp",
                            kept: None,
                            replay_of_wire: None,
                            dgram_len: 0,
                            rewritten: (false, false),
                        });
                        self.socks[sock].tcp = TcpState::Refused { at, resp: rid };
                    } else {
                        self.socks[sock].tcp = TcpState::Failed { at, errno: libc::EHOSTUNREACH };
                    }
                    return;
                }
                let Some(t_arrive) = self.arrival(dist, 0) else {
                    self.counters.add("fault.response_loss", 1);
                    return;
                };
                let kind = if t.tcp_open { RespKind::SynAck } else { RespKind::Rst };
                let rid = self.deliver(RespRec {
                    id: 0,
                    wire_id: Some(id),
                    class: RespClass::Genuine,
                    kind,
                    code: 0,
                    responder: self.sc.tracer.target,
                    quoted_tos: None,
                    exts: None,
                    ambiguous_ext: false,
                    rfc4884_len: 0,
                    quoted_udp_csum: None,
                    t_arrive,
                    handed: None,
                    bytes: None,
                    src: None,
                    note: "tcp",
                    kept: None,
                    replay_of_wire: None,
                    dgram_len: 0,
                    rewritten: (false, false),
                });
                self.socks[sock].tcp = if t.tcp_open {
                    TcpState::Established { at: t_arrive, resp: rid }
                } else {
                    TcpState::Refused { at: t_arrive, resp: rid }
                };
            }
        }
    }

    /// Arrival time of a response from distance `dist`, or `None` when it is lost.
    fn arrival(&mut self, dist: u32, extra: u64) -> Option<u64> {
        let n = &self.sc.net;
        if n.resp_loss_pm > 0 && self.tape.chance(n.resp_loss_pm) {
            return None;
        }
        let n = &self.sc.net;
        let mut rtt = 2 * u64::from(dist) * n.hop_delay_ns + extra;
        let (jitter_ns, extra_pm, late_pm) = (n.jitter_ns, n.extra_delay_pm, n.late_pm);
        if jitter_ns > 0 {
            rtt += u64::from(self.tape.draw((jitter_ns / 1000).max(1) as u32 + 1)) * 1000;
        }
        if extra_pm > 0 && self.tape.chance(extra_pm) {
            let max_us = (self.sc.tracer.max_round_ns / 1000).clamp(1, 4_000_000) as u32;
            rtt += u64::from(self.tape.skewed(max_us)) * 1000;
            self.counters.add("fault.extra_delay", 1);
        }
        if late_pm > 0 && self.tape.chance(late_pm) {
            let max_us = (self.sc.tracer.max_round_ns / 1000).clamp(1, 4_000_000) as u32;
            rtt += self.sc.tracer.max_round_ns + u64::from(self.tape.draw(max_us)) * 1000;
            self.counters.add("fault.late_delivery", 1);
        }
        Some(clock::now() + rtt)
    }

    fn apply_nat(&mut self, dg: &mut [u8], nat: NatCfg, dist: u32) {
        self.counters.add("fault.nat_rewrite", 1);
        let v6 = dg[0] >> 4 == 6;
        let l4 = if v6 { 40 } else { usize::from(dg[0] & 0x0f) * 4 };
        let proto = if v6 { dg[6] } else { dg[9] };
        if nat.rewrite_addr {
            if v6 {
                let a = Ipv6Addr::new(0xfd64, 0, 0, 0, 0, 0, dist as u16, 1);
                dg[8..24].copy_from_slice(&a.octets());
            } else {
                let a = Ipv4Addr::new(100, 64, dist as u8, 1);
                dg[12..16].copy_from_slice(&a.octets());
            }
        }
        if nat.rewrite_port && (proto == wire::PROTO_UDP || proto == wire::PROTO_TCP) && dg.len() >= l4 + 2 {
            let old = u16::from_be_bytes([dg[l4], dg[l4 + 1]]);
            let new = old ^ (0x4000 | dist as u16);
            dg[l4..l4 + 2].copy_from_slice(&new.to_be_bytes());
        }
        if !v6 {
            wire::fix_ipv4_checksum(dg);
        }
        // a NAT device fixes up the transport checksum
        let seg_len = dg.len() - l4;
        if proto == wire::PROTO_UDP && seg_len >= 8 {
            let had = u16::from_be_bytes([dg[l4 + 6], dg[l4 + 7]]);
            if had != 0 || v6 {
                dg[l4 + 6] = 0;
                dg[l4 + 7] = 0;
                let c = l4_checksum(dg, l4, proto);
                let c = if c == 0 { 0xffff } else { c };
                dg[l4 + 6..l4 + 8].copy_from_slice(&c.to_be_bytes());
            }
        } else if proto == wire::PROTO_TCP && seg_len >= 20 {
            dg[l4 + 16] = 0;
            dg[l4 + 17] = 0;
            let c = l4_checksum(dg, l4, proto);
            dg[l4 + 16..l4 + 18].copy_from_slice(&c.to_be_bytes());
        }
    }

    /// A responder at `from` (distance `dist`) returns an ICMP error quoting `dg`.
    #[allow(clippy::too_many_arguments)]
    fn icmp_error_from(
        &mut self,
        wire_id: usize,
        dg: &[u8],
        from: IpAddr,
        dist: u32,
        kind: RespKind,
        code: u8,
        quote: Quote,
        layout: &ErrorLayout,
        quoted_ttl: u8,
        extra_delay: u64,
        duplicate: bool,
    ) {
        let Some(t_arrive) = self.arrival(dist, extra_delay) else {
            self.counters.add("fault.response_loss", 1);
            self.ev(11, u64::from(dist), 0);
            return;
        };
        let host = self.host_addr();
        let built = build_error(dg, from, host, kind, code, quote, layout, quoted_ttl, dist);
        if built.rfc4884_len >= 64 && !built.v6 || built.rfc4884_len >= 32 && built.v6 {
            self.counters.add("reach.ext_quotation_ge_256_octets", 1);
        }
        if built.exts.is_some() {
            self.counters.add("reach.extension_emitted", 1);
        }
        let mut built = built;
        // RFC 4884 section 7: an all-zero extension checksum means "not transmitted"; every
        // fourth responder distance emits its extension header that way
        if let Some(e) = built.ext_off {
            if dist % 4 == 3 && built.bytes.len() >= e + 4 {
                built.bytes[e + 2] = 0;
                built.bytes[e + 3] = 0;
                // the ICMP checksum covers the whole message
                let io = built.icmp_off;
                built.bytes[io + 2] = 0;
                built.bytes[io + 3] = 0;
                let c = match (built.v6, from, host) {
                    (true, IpAddr::V6(f), IpAddr::V6(h)) => {
                        let seg = &built.bytes[io..];
                        wire::inet_checksum(&[&wire::pseudo_v6(f, h, wire::PROTO_ICMPV6, seg.len() as u32), seg])
                    }
                    _ => wire::inet_checksum(&[&built.bytes[io..]]),
                };
                built.bytes[io + 2..io + 4].copy_from_slice(&c.to_be_bytes());
                self.counters.add("reach.extension_checksum_not_transmitted", 1);
            }
        }
        let mut class = RespClass::Genuine;
        if let Some(m) = self.sc.mutation {
            apply_mutation(&mut built.bytes, built.v6, built.icmp_off, built.quote_off, built.ext_off, m);
            class = RespClass::Corrupt;
            self.counters.add("fault.corrupt.sweep", 1);
        } else if self.sc.inject.corrupt_pm > 0 && self.tape.chance(self.sc.inject.corrupt_pm) {
            class = RespClass::Corrupt;
            self.corrupt_randomly(&mut built);
        }
        let rewritten = {
            let orig = &self.wires[wire_id].bytes;
            let v6 = dg[0] >> 4 == 6;
            let (a0, a1, l4) = if v6 { (8, 24, 40) } else { (12, 16, usize::from(dg[0] & 0x0f) * 4) };
            // the datagram as sent may have a shorter header (options inserted in transit)
            let o4 = if v6 { 40 } else { usize::from(orig.first().copied().unwrap_or(0x45) & 0x0f) * 4 };
            let addr = orig.len() >= a1 && dg.len() >= a1 && orig[a0..a1] != dg[a0..a1];
            let port = orig.len() >= o4 + 2 && dg.len() >= l4 + 2 && orig[o4..o4 + 2] != dg[l4..l4 + 2];
            (addr, port)
        };
        let rec = RespRec {
            id: 0,
            wire_id: if class == RespClass::Genuine { Some(wire_id) } else { None },
            class,
            kind,
            code,
            responder: from,
            quoted_tos: Some(built.quoted_tos),
            exts: built.exts.clone(),
            ambiguous_ext: built.ambiguous_ext,
            rfc4884_len: built.rfc4884_len,
            quoted_udp_csum: built.quoted_udp_csum,
            t_arrive,
            handed: None,
            bytes: Some(built.bytes.clone()),
            src: built.src,
            note: "icmp-error",
            kept: None,
            replay_of_wire: None,
                    dgram_len: 0,
                    rewritten,
        };
        let rid = self.deliver(rec);
        let dup = duplicate || (self.sc.net.dup_pm > 0 && self.tape.chance(self.sc.net.dup_pm));
        if dup {
            self.counters.add("fault.duplicate", 1);
            let gap = u64::from(self.tape.skewed(2000)) * 1000;
            let mut copy = self.resps[rid].clone();
            copy.class = RespClass::Duplicate;
            copy.t_arrive = t_arrive + gap;
            copy.handed = None;
            copy.bytes = Some(built.bytes);
            self.deliver(copy);
        }
    }

    /// Random in-flight corruption of a built response (C04 live mode).
    fn corrupt_randomly(&mut self, built: &mut BuiltError) {
        let n = built.bytes.len();
        if n == 0 {
            return;
        }
        match self.tape.pick(4) {
            0 => {
                let flips = 1 + self.tape.draw(4);
                for _ in 0..flips {
                    let bit = self.tape.draw((n * 8) as u32) as usize;
                    built.bytes[bit / 8] ^= 1 << (bit % 8);
                }
                self.counters.add("fault.corrupt.bitflip", 1);
            }
            1 => {
                let keep = self.tape.draw(n as u32 + 1) as usize;
                built.bytes.truncate(keep);
                self.counters.add("fault.corrupt.truncate", 1);
            }
            2 => {
                let field = self.tape.draw(MUT_FIELDS.len() as u32) as u8;
                let value = if MUT_FIELDS[field as usize].1 == 1 {
                    self.tape.draw(256)
                } else {
                    u32::from(MUT_VALUES_16[self.tape.pick(MUT_VALUES_16.len())])
                };
                let trunc = if self.tape.chance(300) { Some(self.tape.draw(n as u32 + 1) as u16) } else { None };
                apply_mutation(&mut built.bytes, built.v6, built.icmp_off, built.quote_off, built.ext_off, crate::scenario::Mutation { field, value, trunc });
                self.counters.add("fault.corrupt.field", 1);
            }
            _ => {
                // garbage tail / oversized datagram
                let extra = self.tape.skewed(1200) as usize;
                for _ in 0..extra {
                    let b = self.tape.draw(256) as u8;
                    built.bytes.push(b);
                }
                self.counters.add("fault.corrupt.oversize", 1);
            }
        }
    }

    fn echo_reply_from(&mut self, wire_id: usize, dg: &[u8], from: IpAddr, dist: u32) {
        let Some(t_arrive) = self.arrival(dist, 0) else {
            self.counters.add("fault.response_loss", 1);
            return;
        };
        let host = self.host_addr();
        let v6 = dg[0] >> 4 == 6;
        let l4 = if v6 { 40 } else { usize::from(dg[0] & 0x0f) * 4 };
        let (bytes, src) = match (from, host) {
            (IpAddr::V4(f), IpAddr::V4(h)) => {
                let m = wire::build_icmpv4_echo_reply(&dg[l4..]);
                (wire::wrap_ipv4(f, h, wire::PROTO_ICMP, 64u8.saturating_sub(dist as u8), 0, wire_id as u16, &m), None)
            }
            (IpAddr::V6(f), IpAddr::V6(h)) => (
                wire::build_icmpv6_echo_reply(f, h, &dg[l4..]),
                Some(SocketAddr::new(from, 0)),
            ),
            _ => return,
        };
        let rec = RespRec {
            id: 0,
            wire_id: Some(wire_id),
            class: RespClass::Genuine,
            kind: RespKind::EchoReply,
            code: 0,
            responder: from,
            quoted_tos: None,
            exts: None,
            ambiguous_ext: false,
            rfc4884_len: 0,
            quoted_udp_csum: None,
            t_arrive,
            handed: None,
            bytes: Some(bytes.clone()),
            src,
            note: "echo-reply",
            kept: None,
            replay_of_wire: None,
                    dgram_len: 0,
                    rewritten: (false, false),
        };
        let rid = self.deliver(rec);
        if self.sc.net.dup_pm > 0 && self.tape.chance(self.sc.net.dup_pm) {
            self.counters.add("fault.duplicate", 1);
            let gap = u64::from(self.tape.skewed(2000)) * 1000;
            let mut copy = self.resps[rid].clone();
            copy.class = RespClass::Duplicate;
            copy.t_arrive = t_arrive + gap;
            copy.bytes = Some(bytes);
            self.deliver(copy);
        }
    }
}

fn l4_checksum(dg: &[u8], l4: usize, proto: u8) -> u16 {
    let seg = &dg[l4..];
    if dg[0] >> 4 == 6 {
        let mut s = [0u8; 16];
        let mut d = [0u8; 16];
        s.copy_from_slice(&dg[8..24]);
        d.copy_from_slice(&dg[24..40]);
        wire::inet_checksum(&[&wire::pseudo_v6(s.into(), d.into(), proto, seg.len() as u32), seg])
    } else {
        let s = Ipv4Addr::new(dg[12], dg[13], dg[14], dg[15]);
        let d = Ipv4Addr::new(dg[16], dg[17], dg[18], dg[19]);
        wire::inet_checksum(&[&wire::pseudo_v4(s, d, proto, seg.len() as u16), seg])
    }
}

/// Rewrite TOS / traffic class of a datagram in place.
pub fn set_tos(dg: &mut [u8], tos: u8) {
    if dg[0] >> 4 == 6 {
        dg[0] = 0x60 | (tos >> 4);
        dg[1] = (tos << 4) | (dg[1] & 0x0f);
    } else {
        dg[1] = tos;
        wire::fix_ipv4_checksum(dg);
    }
}

#[must_use]
pub fn get_tos(dg: &[u8]) -> u8 {
    if dg[0] >> 4 == 6 {
        (dg[0] << 4) | (dg[1] >> 4)
    } else {
        dg[1]
    }
}

/// A built ICMP error datagram and the truth about it.
pub struct BuiltError {
    pub bytes: Vec<u8>,
    pub src: Option<SocketAddr>,
    pub v6: bool,
    pub quoted_tos: u8,
    pub exts: Option<Vec<wire::ExtObject>>,
    pub ambiguous_ext: bool,
    pub rfc4884_len: u8,
    pub quoted_udp_csum: Option<u16>,
    /// Offset of the quoted datagram inside `bytes`.
    pub quote_off: usize,
    pub quote_len: usize,
    /// Offset of the ICMP message / the extension structure inside `bytes`.
    pub icmp_off: usize,
    pub ext_off: Option<usize>,
}

/// Insert `words` 32-bit words of no-operation options into an IPv4 datagram with a plain
/// header: header length, total length and header checksum follow.
fn insert_ip_options(dg: &mut Vec<u8>, words: u8) {
    let n = usize::from(words) * 4;
    let mut opts = vec![1u8; n];
    // end-of-option-list in the last octet, as a padded option field looks on the wire
    opts[n - 1] = 0;
    let tail = dg.split_off(20);
    dg.extend_from_slice(&opts);
    dg.extend_from_slice(&tail);
    dg[0] = 0x40 | (5 + words);
    let total = (dg.len() as u16).to_be_bytes();
    dg[2] = total[0];
    dg[3] = total[1];
    wire::fix_ipv4_checksum(dg);
}

/// Build the datagram a responder at `from` sends to `host` for the offending datagram `dg`.
#[allow(clippy::too_many_arguments)]
#[must_use]
pub fn build_error(
    dg: &[u8],
    from: IpAddr,
    host: IpAddr,
    kind: RespKind,
    code: u8,
    quote: Quote,
    layout: &ErrorLayout,
    quoted_ttl: u8,
    dist: u32,
) -> BuiltError {
    let v6 = dg[0] >> 4 == 6;
    let mut q = dg.to_vec();
    // what the responder saw: hop limit / ttl as it was when the datagram expired
    if v6 {
        q[7] = quoted_ttl;
    } else {
        q[8] = quoted_ttl;
        wire::fix_ipv4_checksum(&mut q);
    }
    let l4 = if v6 { 40 } else { usize::from(q[0] & 0x0f) * 4 };
    let proto = if v6 { q[6] } else { q[9] };
    let quoted_udp_csum = if proto == wire::PROTO_UDP && q.len() >= l4 + 8 {
        Some(u16::from_be_bytes([q[l4 + 6], q[l4 + 7]]))
    } else {
        None
    };
    let has_ext_struct = matches!(layout, ErrorLayout::Compliant(_) | ErrorLayout::Legacy128(_) | ErrorLayout::CompliantShortLength(_));
    // the short-length form only exists for quotations that fit the 128-octet field
    let fallback;
    let layout = if let ErrorLayout::CompliantShortLength(o) = layout {
        if dg.len() > 128 {
            fallback = ErrorLayout::Compliant(o.clone());
            &fallback
        } else {
            layout
        }
    } else {
        layout
    };
    if v6 {
        // as much as fits into the minimum MTU
        let extra = match layout {
            ErrorLayout::Compliant(o) | ErrorLayout::Legacy128(o) | ErrorLayout::CompliantShortLength(o) => 4 + o.iter().map(|x| 4 + x.payload.len()).sum::<usize>(),
            _ => 0,
        };
        q.truncate(1280usize.saturating_sub(48 + extra).max(48));
    } else {
        let keep = match quote {
            Quote::Min8 => 8,
            Quote::Bytes(n) => usize::from(n).max(8),
            Quote::Full => usize::MAX,
        };
        q.truncate(l4.saturating_add(keep).min(q.len()));
        if matches!(layout, ErrorLayout::Compliant(_) | ErrorLayout::CompliantNoExt) {
            q.truncate(MAX_4884_V4);
        }
    }
    let quote_len = q.len();
    let quoted_tos = get_tos(&q);
    let exts = match layout {
        ErrorLayout::Compliant(o) | ErrorLayout::Legacy128(o) | ErrorLayout::CompliantShortLength(o) => Some(o.clone()),
        _ => None,
    };
    // RFC 4884 §5: without a length attribute a quotation longer than 128 octets cannot
    // be told apart from a legacy 128-octet quotation followed by an extension.
    // ... and a label stack object whose length is not a whole number of entries is malformed:
    // what a parser makes of it is not prescribed (it must stop, and must not crash)
    let ambiguous_ext = matches!(layout, ErrorLayout::Plain) && quote_len > 128
        || matches!(layout, ErrorLayout::Legacy128(_)) && quote_len > 128
        || exts.as_ref().is_some_and(|o| o.iter().any(|x| x.class == 1 && x.payload.len() % 4 != 0));
    let (icmp_type, rfc_len_off) = match (v6, kind) {
        (false, RespKind::TimeExceeded) => (11u8, 5usize),
        (false, _) => (3, 5),
        (true, RespKind::TimeExceeded) => (3, 4),
        (true, _) => (1, 4),
    };
    let _ = has_ext_struct;
    // where the extension structure starts, relative to the quotation
    let unit = if v6 { 8 } else { 4 };
    let ext_rel = match layout {
        ErrorLayout::Compliant(_) => Some(quote_len.max(128).div_ceil(unit) * unit),
        ErrorLayout::Legacy128(_) | ErrorLayout::CompliantShortLength(_) => Some(128),
        _ => None,
    };
    match (from, host) {
        (IpAddr::V4(f), IpAddr::V4(h)) => {
            let m = wire::build_icmpv4_error(icmp_type, code, &q, layout);
            let rfc4884_len = m[rfc_len_off];
            let bytes = wire::wrap_ipv4(f, h, wire::PROTO_ICMP, 255u8.saturating_sub(dist as u8), 0xc0, (dist as u16) << 8, &m);
            BuiltError {
                bytes,
                src: None,
                v6,
                quoted_tos,
                exts,
                ambiguous_ext,
                rfc4884_len,
                quoted_udp_csum,
                quote_off: 28,
                quote_len,
                icmp_off: 20,
                ext_off: ext_rel.map(|x| 28 + x),
            }
        }
        (IpAddr::V6(f), IpAddr::V6(h)) => {
            let m = wire::build_icmpv6_error(f, h, icmp_type, code, &q, layout);
            let rfc4884_len = m[rfc_len_off];
            BuiltError {
                bytes: m,
                src: Some(SocketAddr::new(from, 0)),
                v6,
                quoted_tos,
                exts,
                ambiguous_ext,
                rfc4884_len,
                quoted_udp_csum,
                quote_off: 8,
                quote_len,
                icmp_off: 0,
                ext_off: ext_rel.map(|x| 8 + x),
            }
        }
        _ => BuiltError {
            bytes: Vec::new(),
            src: None,
            v6,
            quoted_tos,
            exts: None,
            ambiguous_ext: false,
            rfc4884_len: 0,
            quoted_udp_csum: None,
            quote_off: 0,
            quote_len: 0,
            icmp_off: 0,
            ext_off: None,
        },
    }
}

/// Which field of a probe carries its sequence number in this configuration.
#[derive(Debug, Clone, Copy, PartialEq, Eq)]
pub enum Carrier {
    IcmpSeq,
    SrcPort,
    DestPort,
    UdpChecksum,
    IpId,
    PayloadLen,
}

#[must_use]
pub fn carrier(proto: Proto, strat: Strat, v6: bool, fixed_dest_only: bool) -> Carrier {
    match (proto, strat) {
        (Proto::Icmp, _) => Carrier::IcmpSeq,
        (Proto::Udp, Strat::Classic) | (Proto::Tcp, _) => {
            if fixed_dest_only {
                Carrier::SrcPort
            } else {
                Carrier::DestPort
            }
        }
        (Proto::Udp, Strat::Paris) => Carrier::UdpChecksum,
        (Proto::Udp, Strat::Dublin) => {
            if v6 {
                Carrier::PayloadLen
            } else {
                Carrier::IpId
            }
        }
    }
}
