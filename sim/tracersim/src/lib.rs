//! tracersim: the real trippy tracer under a simulated network, clock and socket layer.

pub mod check;
pub mod clock;
pub mod gen;
pub mod inject;
pub mod net;
pub mod oracle;
pub mod props;
pub mod refagg;
pub mod run;
pub mod scenario;
pub mod sniff;
pub mod wire;
pub mod world;
