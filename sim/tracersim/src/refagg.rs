//! Reference aggregation of published rounds ("a straightforward recomputation"), used as
//! the oracle for per-hop statistics (C05), per-flow statistics (C15) and NAT status (C19).
//!
//! Everything is kept as plain lists and recomputed from scratch on demand; nothing is
//! shared with `trippy_core::state`.

use crate::run::RoundRec;
use std::net::IpAddr;
use trippy_core::{Extensions, Hop, IcmpPacketType, NatStatus, ProbeStatus};

#[derive(Debug, Clone, Copy, PartialEq, Eq)]
pub enum Kind {
    Complete,
    Awaited,
    Failed,
}

#[derive(Debug, Clone)]
pub struct Entry {
    pub kind: Kind,
    pub rtt_ns: u64,
    pub host: Option<IpAddr>,
    pub src_port: u16,
    pub dest_port: u16,
    pub sequence: u16,
    pub icmp: Option<IcmpPacketType>,
    pub tos: Option<u8>,
    pub exts: Option<Extensions>,
    pub nat: Option<NatStatus>,
    pub forward_lost: bool,
    pub backward_lost: bool,
}

/// Everything recorded for one ttl, in order.
#[derive(Debug, Clone, Default)]
pub struct RefHop {
    pub entries: Vec<Entry>,
}

#[derive(Debug, Clone)]
pub struct RefFlow {
    pub hops: Vec<RefHop>,
    pub rounds: usize,
    pub lowest: Option<u8>,
    pub highest: u8,
    pub latest_largest: u8,
}

impl Default for RefFlow {
    fn default() -> Self {
        Self {
            hops: (0..256).map(|_| RefHop::default()).collect(),
            rounds: 0,
            lowest: None,
            highest: 0,
            latest_largest: 0,
        }
    }
}

fn ttl_of(p: &ProbeStatus) -> Option<u8> {
    match p {
        ProbeStatus::Awaited(x) => Some(x.ttl.0),
        ProbeStatus::Complete(x) => Some(x.ttl.0),
        ProbeStatus::Failed(x) => Some(x.ttl.0),
        _ => None,
    }
}

impl RefFlow {
    /// Apply one published round.
    pub fn apply(&mut self, round: &RoundRec) {
        self.rounds += 1;
        self.highest = self.highest.max(round.largest_ttl);
        self.latest_largest = round.largest_ttl;
        // forward loss: the first awaited probe (in order) after which every probe with a
        // higher ttl is awaited (or skipped) too, and at least one such probe exists;
        // every later awaited probe of the round is backward loss
        let n = round.probes.len();
        let mut forward_idx: Option<usize> = None;
        for i in 0..n {
            let ProbeStatus::Awaited(a) = &round.probes[i] else { continue };
            let t = a.ttl.0;
            // the probes "beyond" this one: from the first entry (in order) with a higher ttl on
            let beyond_start = round.probes.iter().position(|p| match ttl_of(p) {
                Some(x) => x > t,
                None => false,
            });
            if let Some(b) = beyond_start {
                let all_awaited = round.probes[b..]
                    .iter()
                    .all(|p| matches!(p, ProbeStatus::Awaited(_) | ProbeStatus::Skipped));
                if all_awaited {
                    forward_idx = Some(i);
                    break;
                }
            }
        }
        // NAT: walk the responding hops of the round in order
        let mut prev_csum: Option<u16> = None;
        for (i, p) in round.probes.iter().enumerate() {
            let Some(ttl) = ttl_of(p) else { continue };
            self.lowest = Some(self.lowest.map_or(ttl, |l| l.min(ttl)));
            let hop = &mut self.hops[ttl as usize];
            match p {
                ProbeStatus::Complete(c) => {
                    let rtt = crate::clock::to_ns(c.received).saturating_sub(crate::clock::to_ns(c.sent));
                    let nat = match (c.expected_udp_checksum, c.actual_udp_checksum) {
                        (Some(exp), Some(act)) => {
                            let status = match prev_csum {
                                Some(prev) => {
                                    if prev == act.0 {
                                        NatStatus::NotDetected
                                    } else {
                                        NatStatus::Detected
                                    }
                                }
                                None => {
                                    if exp.0 == act.0 {
                                        NatStatus::NotDetected
                                    } else {
                                        NatStatus::Detected
                                    }
                                }
                            };
                            prev_csum = Some(act.0);
                            Some(status)
                        }
                        _ => None,
                    };
                    hop.entries.push(Entry {
                        kind: Kind::Complete,
                        rtt_ns: rtt,
                        host: Some(c.host),
                        src_port: c.src_port.0,
                        dest_port: c.dest_port.0,
                        sequence: c.sequence.0,
                        icmp: Some(c.icmp_packet_type),
                        tos: c.tos.map(|t| t.0),
                        exts: c.extensions.clone(),
                        nat,
                        forward_lost: false,
                        backward_lost: false,
                    });
                }
                ProbeStatus::Awaited(a) => {
                    let forward = forward_idx == Some(i);
                    let backward = forward_idx.is_some_and(|f| i > f);
                    hop.entries.push(Entry {
                        kind: Kind::Awaited,
                        rtt_ns: 0,
                        host: None,
                        src_port: a.src_port.0,
                        dest_port: a.dest_port.0,
                        sequence: a.sequence.0,
                        icmp: None,
                        tos: None,
                        exts: None,
                        nat: None,
                        forward_lost: forward,
                        backward_lost: backward,
                    });
                }
                ProbeStatus::Failed(f) => {
                    hop.entries.push(Entry {
                        kind: Kind::Failed,
                        rtt_ns: 0,
                        host: None,
                        src_port: f.src_port.0,
                        dest_port: f.dest_port.0,
                        sequence: f.sequence.0,
                        icmp: None,
                        tos: None,
                        exts: None,
                        nat: None,
                        forward_lost: false,
                        backward_lost: false,
                    });
                }
                _ => {}
            }
        }
    }
}

fn close(a: f64, b: f64) -> bool {
    if a == b {
        return true;
    }
    let d = (a - b).abs();
    d <= 1e-9 || d <= 1e-9 * a.abs().max(b.abs())
}

fn ms(ns: u64) -> f64 {
    std::time::Duration::from_nanos(ns).as_secs_f64() * 1000.0
}

/// Compare a hop of the tracer's state with the reference; returns (field, detail) of
/// every difference.
#[must_use]
pub fn compare_hop(hop: &Hop, r: &RefHop, max_samples: usize) -> Vec<(&'static str, String)> {
    let mut d: Vec<(&'static str, String)> = Vec::new();
    let sent = r.entries.len();
    let completes: Vec<&Entry> = r.entries.iter().filter(|e| e.kind == Kind::Complete).collect();
    let recv = completes.len();
    let failed = r.entries.iter().filter(|e| e.kind == Kind::Failed).count();
    let fwd = r.entries.iter().filter(|e| e.forward_lost).count();
    let bwd = r.entries.iter().filter(|e| e.backward_lost).count();
    macro_rules! chk {
        ($name:expr, $got:expr, $want:expr) => {
            if $got != $want {
                d.push(($name, format!("{} = {:?}, recomputed {:?}", $name, $got, $want)));
            }
        };
    }
    macro_rules! chkf {
        ($name:expr, $got:expr, $want:expr) => {
            if !close($got, $want) {
                d.push(($name, format!("{} = {:?}, recomputed {:?}", $name, $got, $want)));
            }
        };
    }
    chk!("total_sent", hop.total_sent(), sent);
    chk!("total_recv", hop.total_recv(), recv);
    chk!("total_failed", hop.total_failed(), failed);
    chk!("total_forward_loss", hop.total_forward_loss(), fwd);
    chk!("total_backward_loss", hop.total_backward_loss(), bwd);
    let loss = if sent > 0 { (sent - recv) as f64 / sent as f64 * 100.0 } else { 0.0 };
    chkf!("loss_pct", hop.loss_pct(), loss);
    let rtts: Vec<u64> = completes.iter().map(|e| e.rtt_ns).collect();
    chk!("last_ms", hop.last_ms().map(f64::to_bits), rtts.last().map(|x| ms(*x).to_bits()));
    chk!("best_ms", hop.best_ms().map(f64::to_bits), rtts.iter().min().map(|x| ms(*x).to_bits()));
    chk!("worst_ms", hop.worst_ms().map(f64::to_bits), rtts.iter().max().map(|x| ms(*x).to_bits()));
    let total_ns: u128 = rtts.iter().map(|x| u128::from(*x)).sum();
    let avg = if recv > 0 { (total_ns as f64 / 1e6) / recv as f64 } else { 0.0 };
    chkf!("avg_ms", hop.avg_ms(), avg);
    // two-pass sample standard deviation
    let stddev = if recv > 1 {
        let mean = rtts.iter().map(|x| ms(*x)).sum::<f64>() / recv as f64;
        let ss: f64 = rtts.iter().map(|x| (ms(*x) - mean) * (ms(*x) - mean)).sum();
        (ss / (recv - 1) as f64).sqrt()
    } else {
        0.0
    };
    if !(close(hop.stddev_ms(), stddev) || (hop.stddev_ms() - stddev).abs() <= 1e-6 * stddev.max(1e-3)) {
        d.push(("stddev_ms", format!("stddev_ms = {:?}, two-pass recomputation {:?}", hop.stddev_ms(), stddev)));
    }
    // jitter: |rtt_i - rtt_(i-1)|, the first sample measured against zero
    let mut jitters: Vec<f64> = Vec::new();
    let mut prev = 0.0f64;
    for x in &rtts {
        let v = ms(*x);
        jitters.push((v - prev).abs());
        prev = v;
    }
    let want_jitter = if recv > 1 { jitters.last().copied() } else { None };
    match (hop.jitter_ms(), want_jitter) {
        (Some(a), Some(b)) if close(a, b) || (a - b).abs() < 2e-6 => {}
        (None, None) => {}
        (a, b) => d.push(("jitter_ms", format!("jitter_ms = {a:?}, recomputed {b:?}"))),
    }
    let javg = if jitters.is_empty() { 0.0 } else { jitters.iter().sum::<f64>() / jitters.len() as f64 };
    if !(close(hop.javg_ms(), javg) || (hop.javg_ms() - javg).abs() <= 1e-9 * javg.max(1.0) * jitters.len() as f64) {
        d.push(("javg_ms", format!("javg_ms = {:?}, recomputed {:?}", hop.javg_ms(), javg)));
    }
    let jmax = jitters.iter().copied().fold(None, |m: Option<f64>, x| Some(m.map_or(x, |y| y.max(x))));
    match (hop.jmax_ms(), jmax) {
        (Some(a), Some(b)) if close(a, b) || (a - b).abs() < 2e-6 => {}
        (None, None) => {}
        (a, b) => d.push(("jmax_ms", format!("jmax_ms = {a:?}, recomputed {b:?}"))),
    }
    let mut jinta = 0.0f64;
    for j in &jitters {
        jinta += j.max(0.5) - ((jinta + 8.0) / 16.0);
    }
    if !(close(hop.jinta(), jinta) || (hop.jinta() - jinta).abs() <= 1e-9 * jinta.abs().max(1.0)) {
        d.push(("jinta", format!("jinta = {:?}, recomputed {:?}", hop.jinta(), jinta)));
    }
    // per-address response counts, in order of first appearance
    let mut addrs: Vec<(IpAddr, usize)> = Vec::new();
    for e in &completes {
        let h = e.host.expect("complete has host");
        if let Some(x) = addrs.iter_mut().find(|(a, _)| *a == h) {
            x.1 += 1;
        } else {
            addrs.push((h, 1));
        }
    }
    let got_addrs: Vec<(IpAddr, usize)> = hop.addrs_with_counts().map(|(a, n)| (*a, *n)).collect();
    chk!("addrs_with_counts", got_addrs, addrs);
    chk!("addr_count", hop.addr_count(), addrs.len());
    // last-probe details
    if let Some(last) = r.entries.last() {
        chk!("last_src_port", hop.last_src_port(), last.src_port);
        chk!("last_dest_port", hop.last_dest_port(), last.dest_port);
        chk!("last_sequence", hop.last_sequence(), last.sequence);
    }
    if let Some(last) = completes.last() {
        chk!("last_icmp_packet_type", hop.last_icmp_packet_type(), last.icmp);
        chk!("tos", hop.tos().map(|t| t.0), last.tos);
        chk!("extensions", hop.extensions().cloned(), last.exts.clone());
    } else {
        chk!("last_icmp_packet_type", hop.last_icmp_packet_type(), None::<IcmpPacketType>);
    }
    let want_nat = completes.iter().rev().find_map(|e| e.nat).unwrap_or(NatStatus::NotApplicable);
    chk!("last_nat_status", hop.last_nat_status(), want_nat);
    // bounded newest-first sample history
    let mut samples: Vec<u64> = r.entries.iter().rev().map(|e| e.rtt_ns).collect();
    samples.truncate(max_samples);
    let got: Vec<u64> = hop.samples().iter().map(|s| s.as_nanos() as u64).collect();
    chk!("samples", got, samples);
    // conservation laws, stated separately so that a wrong reference cannot mask them
    if hop.total_recv() + hop.total_failed() > hop.total_sent() {
        d.push(("law.recv+failed<=sent", format!("recv {} + failed {} > sent {}", hop.total_recv(), hop.total_failed(), hop.total_sent())));
    }
    if hop.addrs_with_counts().map(|(_, n)| *n).sum::<usize>() != hop.total_recv() {
        d.push(("law.addr-counts-sum", "address counts do not sum to received".to_string()));
    }
    if let (Some(b), Some(w)) = (hop.best_ms(), hop.worst_ms()) {
        if !(b <= hop.avg_ms() + 1e-9 && hop.avg_ms() <= w + 1e-9) {
            d.push(("law.best<=avg<=worst", format!("best {b} avg {} worst {w}", hop.avg_ms())));
        }
    }
    if !(0.0..=100.0).contains(&hop.loss_pct()) {
        d.push(("law.loss-range", format!("loss {}", hop.loss_pct())));
    }
    if hop.total_forward_loss() + hop.total_backward_loss() > hop.total_sent().saturating_sub(hop.total_recv() + hop.total_failed()) {
        d.push((
            "law.fwd+bwd<=lost",
            format!(
                "forward {} + backward {} > sent {} - recv {} - failed {}",
                hop.total_forward_loss(),
                hop.total_backward_loss(),
                hop.total_sent(),
                hop.total_recv(),
                hop.total_failed()
            ),
        ));
    }
    if hop.samples().len() > max_samples {
        d.push(("law.samples-bounded", format!("{} samples, limit {max_samples}", hop.samples().len())));
    }
    d
}
