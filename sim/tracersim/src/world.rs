//! The simulated world behind the `Socket` / `Platform` seams: sockets, receive queue,
//! wire records, ground truth, fault injection and discrete-event time.

use crate::clock;
use crate::scenario::{Scenario, ScriptedFault, Site};
use crate::wire::{self, DecodedProbe, ExtObject};
use simcore::evidence::Counters;
use simcore::{Fnv, Tape};
use std::cell::RefCell;
use std::cmp::Reverse;
use std::collections::BinaryHeap;
use std::io;
use std::net::{IpAddr, Ipv4Addr, Ipv6Addr, SocketAddr};
use std::time::Duration;
use trippy_core::verif::{
    CoreError, CoreResult, IoError, IoOperation, IoResult, Ipv4ByteOrder, Platform, Socket, SocketError,
};

thread_local! {
    pub static WORLD: RefCell<Option<World>> = const { RefCell::new(None) };
}

/// Run `f` with the world attached to this thread.
pub fn with_world<R>(f: impl FnOnce(&mut World) -> R) -> R {
    WORLD.with(|w| {
        let mut g = w.borrow_mut();
        f(g.as_mut().expect("no world attached to this thread"))
    })
}

pub fn try_with_world<R>(f: impl FnOnce(&mut World) -> R) -> Option<R> {
    WORLD
        .try_with(|w| w.try_borrow_mut().ok().and_then(|mut g| g.as_mut().map(f)))
        .ok()
        .flatten()
}

#[derive(Debug, Clone, Copy, PartialEq, Eq)]
pub enum SockKind {
    IcmpSend,
    UdpSend,
    Recv,
    Stream,
    Dgram,
}

#[derive(Debug, Clone, Copy, PartialEq, Eq)]
pub enum TcpState {
    Idle,
    Pending,
    Established { at: u64, resp: usize },
    Refused { at: u64, resp: usize },
    Failed { at: u64, errno: i32 },
}

#[derive(Debug, Clone)]
pub struct Sock {
    pub kind: SockKind,
    pub v6: bool,
    pub raw: bool,
    pub bound: Option<SocketAddr>,
    pub ttl: Option<u32>,
    pub hops: Option<u8>,
    pub tos: Option<u32>,
    pub hdrincl: bool,
    pub peer: Option<SocketAddr>,
    pub tcp: TcpState,
    pub closed: bool,
    pub attempt: Option<usize>,
    /// The open attempt belongs to one send on a shared socket (not to the socket's life).
    pub shared_attempt: bool,
}

#[derive(Debug, Clone, Copy, PartialEq, Eq)]
pub enum RespClass {
    Genuine,
    Duplicate,
    Replay,
    Foreign,
    NeverSent,
    Unrelated,
    Corrupt,
}

#[derive(Debug, Clone, Copy, PartialEq, Eq)]
pub enum RespKind {
    TimeExceeded,
    Unreachable,
    EchoReply,
    SynAck,
    Rst,
    Other,
}

#[derive(Debug, Clone, Copy, PartialEq, Eq)]
pub struct HandInfo {
    pub t_exit: u64,
    pub call_idx: u64,
    pub round_idx: u32,
    pub reads_at_exit: u64,
}

#[derive(Debug, Clone)]
pub struct RespRec {
    pub id: usize,
    pub wire_id: Option<usize>,
    pub class: RespClass,
    pub kind: RespKind,
    pub code: u8,
    pub responder: IpAddr,
    pub quoted_tos: Option<u8>,
    /// The extension objects that were encoded (None: no extension structure).
    pub exts: Option<Vec<ExtObject>>,
    /// RFC 4884 makes this message's extension part ambiguous (long quotation, no length).
    pub ambiguous_ext: bool,
    /// RFC 4884 length attribute of the message (0 when absent).
    pub rfc4884_len: u8,
    pub quoted_udp_csum: Option<u16>,
    pub t_arrive: u64,
    pub handed: Option<HandInfo>,
    pub bytes: Option<Vec<u8>>,
    pub src: Option<SocketAddr>,
    pub note: &'static str,
    /// Copy of the datagram kept after hand-over (only when it may be replayed later).
    pub kept: Option<Vec<u8>>,
    /// For a replayed datagram: the wire record the original answered.
    pub replay_of_wire: Option<usize>,
    /// Size of the datagram as delivered to the receive socket (before buffer clipping).
    pub dgram_len: usize,
    /// The quoted datagram differs from the probe as sent in (source address, source port).
    pub rewritten: (bool, bool),
}

/// What became of one attempt to send a probe.
#[derive(Debug, Clone, Copy, PartialEq, Eq)]
pub enum AttemptOutcome {
    Open,
    OnWire(usize),
    /// A socket call of the attempt failed with this errno at this site.
    Failed(Site, i32),
}

#[derive(Debug, Clone)]
pub struct Attempt {
    pub idx: usize,
    pub round_idx: u32,
    /// Exit time of the socket call preceding the attempt.
    pub t_lo: u64,
    /// Entry time of the attempt's first socket call.
    pub t_hi: u64,
    pub reads_lo: u64,
    pub reads_hi: u64,
    pub outcome: AttemptOutcome,
    pub sport: Option<u16>,
    pub dport: Option<u16>,
    pub ttl: Option<u8>,
    /// Index (1-based) of the attempt's first socket call.
    pub call_first: u64,
    /// The datagram the tracer tried to send, decoded (shared raw sockets only, also
    /// when the send failed).
    pub decoded: Option<DecodedProbe>,
}

/// Entry time and clock-read index of every socket/platform call (index = call_idx - 1).
#[derive(Debug, Clone, Copy, PartialEq, Eq)]
pub struct CallLite {
    pub site: Site,
    pub t_enter: u64,
    pub reads_enter: u64,
}

#[derive(Debug, Clone)]
pub struct WireRec {
    pub id: usize,
    pub attempt: usize,
    pub round_idx: u32,
    pub t_sent: u64,
    /// The IP datagram as it appears on the wire (headers synthesised where the kernel
    /// would have written them).
    pub bytes: Vec<u8>,
    pub decoded: Result<DecodedProbe, String>,
    /// Was the IP header supplied by the tracer (IPv4 header-included sockets)?
    pub hdr_by_tracer: bool,
    pub responses: Vec<usize>,
    pub path_idx: usize,
    pub sock_kind: SockKind,
}

#[derive(Debug, Clone, Copy, PartialEq, Eq)]
pub struct CallRec {
    pub site: Site,
    pub t_enter: u64,
    pub t_exit: u64,
    pub reads_enter: u64,
    pub errno: i32,
}

#[derive(Debug, Clone, Copy, PartialEq, Eq)]
pub struct FaultRec {
    pub call_idx: u64,
    pub site: Site,
    pub errno: i32,
    pub round_idx: u32,
    pub t: u64,
    pub running: bool,
}

pub struct World {
    pub sc: Scenario,
    pub tape: Tape,
    pub socks: Vec<Sock>,
    pub rx: BinaryHeap<Reverse<(u64, u64, usize)>>,
    pub rx_seq: u64,
    pub resps: Vec<RespRec>,
    pub wires: Vec<WireRec>,
    pub attempts: Vec<Attempt>,
    pub faults: Vec<FaultRec>,
    pub running: bool,
    pub round_idx: u32,
    pub call_idx: u64,
    pub last_call: Option<CallRec>,
    pub calls: Vec<CallLite>,
    pub call_budget: u64,
    pub last_exit: u64,
    pub last_exit_reads: u64,
    /// Clock-read index at the entry of the last two `is_readable` calls (C08 slack).
    pub readable_marks: [u64; 3],
    /// Round for which `burst_binds` counts, and (successful, failed-by-burst) TCP binds in it.
    pub burst_round: u32,
    pub burst_binds: (u32, u32),
    /// Background chatter is scheduled up to this instant.
    pub chatter_until: u64,
    pub site_counts: Vec<(Site, u32)>,
    pub counters: Counters,
    pub full_hash: Fnv,
    pub abs_hash: Fnv,
    pub events: u64,
    pub rate_counters: Vec<(IpAddr, u32)>,
    pub paths_now: Vec<crate::scenario::PathCfg>,
    pub c11: Vec<String>,
    pub recv_sock: Option<usize>,
    pub replay_pending: Vec<usize>,
    pub harness_error: Option<String>,
    pub never_sent_injected: u32,
    pub pending_shared: Option<usize>,
    /// (response id, sequence it names) of forged never-sent responses.
    pub forged_seqs: Vec<(usize, u16)>,
    pub round_first_seq: Option<(u32, u16)>,
    /// First failure reported by the passive sniffer.
    pub sniff_failure: Option<(String, String)>,
    pub sniff_views: u64,
}

pub const ERRNO_NONE: i32 = 0;

impl World {
    #[must_use]
    pub fn new(sc: Scenario, tape: Tape) -> Self {
        let paths_now = sc.net.paths.clone();
        Self {
            sc,
            tape,
            socks: Vec::new(),
            rx: BinaryHeap::new(),
            rx_seq: 0,
            resps: Vec::new(),
            wires: Vec::new(),
            attempts: Vec::new(),
            faults: Vec::new(),
            running: false,
            round_idx: 0,
            call_idx: 0,
            last_call: None,
            calls: Vec::new(),
            call_budget: u64::MAX,
            last_exit: clock::now(),
            last_exit_reads: 0,
            readable_marks: [0; 3],
            burst_round: 0,
            burst_binds: (0, 0),
            chatter_until: 0,
            site_counts: Vec::new(),
            counters: Counters::default(),
            full_hash: Fnv::default(),
            abs_hash: Fnv::default(),
            events: 0,
            rate_counters: Vec::new(),
            paths_now,
            c11: Vec::new(),
            recv_sock: None,
            replay_pending: Vec::new(),
            harness_error: None,
            never_sent_injected: 0,
            pending_shared: None,
            forged_seqs: Vec::new(),
            round_first_seq: None,
            sniff_failure: None,
            sniff_views: 0,
        }
    }

    /// Log an event: `kind` and `a` go into the abstract trace, `b` (times, addresses,
    /// identifiers) only into the full hash.
    pub fn ev(&mut self, kind: u8, a: u64, b: u64) {
        self.events += 1;
        self.full_hash.u8(kind);
        self.full_hash.u64(a);
        self.full_hash.u64(b);
        self.full_hash.u64(clock::now());
        self.abs_hash.u8(kind);
        self.abs_hash.u64(a);
    }

    fn site_count(&mut self, site: Site) -> u32 {
        for (s, n) in &mut self.site_counts {
            if *s == site {
                let v = *n;
                *n += 1;
                return v;
            }
        }
        self.site_counts.push((site, 1));
        0
    }

    /// Common entry of every socket/platform call: stalls, scripted and random faults.
    /// Returns the errno to fail with (0 = proceed).
    pub fn enter(&mut self, site: Site, sock: Option<usize>) -> i32 {
        let t_enter = clock::now();
        let reads_enter = clock::reads();
        self.call_idx += 1;
        if let Some((at, ns)) = self.sc.faults.wall_clock_back {
            if self.call_idx == at && self.running {
                clock::step_wall_clock_back(ns);
                self.counters.add("fault.wall_clock_step_back", 1);
            }
        }
        self.calls.push(CallLite {
            site,
            t_enter,
            reads_enter,
        });
        if self.call_idx > self.call_budget || self.tape.exhausted {
            if self.harness_error.is_none() {
                self.harness_error = Some(format!("call budget {} exceeded", self.call_budget));
            }
            self.last_call = Some(CallRec { site, t_enter, t_exit: t_enter, reads_enter, errno: libc::ENOTRECOVERABLE });
            return libc::ENOTRECOVERABLE;
        }
        // attempt bookkeeping: per-probe sockets open an attempt at creation, the shared
        // raw send socket at each send_to
        let mut errno = ERRNO_NONE;
        let nth = self.site_count(site);
        let scripted: Option<ScriptedFault> = self
            .sc
            .faults
            .scripted
            .iter()
            .copied()
            .find(|f| f.site == site && f.nth == nth && f.run_phase == self.running);
        if let Some(f) = scripted {
            errno = f.errno;
        } else if self.running {
            if self.sc.faults.stall_pm > 0 && self.tape.chance(self.sc.faults.stall_pm) {
                let d = u64::from(self.tape.skewed((self.sc.faults.stall_max_ns / 1000).max(1) as u32)) * 1000;
                clock::advance_by(d);
                self.counters.add("fault.stall", 1);
                self.ev(20, 0, d);
            }
            let stream_bind = site == Site::Bind && sock.is_some_and(|s| self.socks[s].kind == SockKind::Stream);
            let in_burst = stream_bind
                && self.round_idx >= self.sc.faults.addr_in_use_from_round
                && self.sc.faults.addr_in_use_burst.is_some_and(|(skip, len)| {
                    if self.burst_round != self.round_idx {
                        self.burst_round = self.round_idx;
                        self.burst_binds = (0, 0);
                    }
                    self.burst_binds.0 >= skip && self.burst_binds.1 < len
                });
            if in_burst {
                self.burst_binds.1 += 1;
                self.counters.add("fault.addr_in_use_burst", 1);
                errno = libc::EADDRINUSE;
            } else if site == Site::Bind
                && self.sc.faults.addr_in_use_pm > 0
                && self.round_idx >= self.sc.faults.addr_in_use_from_round
                && sock.is_some_and(|s| self.socks[s].kind == SockKind::Stream || (self.sc.faults.addr_in_use_udp && self.socks[s].kind == SockKind::UdpSend && !self.socks[s].raw))
                && self.tape.chance(self.sc.faults.addr_in_use_pm)
            {
                errno = libc::EADDRINUSE;
            } else if self.sc.faults.sock_pm > 0 && self.tape.chance(self.sc.faults.sock_pm) {
                errno = self.pick_errno(site);
            }
            if stream_bind && errno == ERRNO_NONE && self.sc.faults.addr_in_use_burst.is_some() {
                if self.burst_round != self.round_idx {
                    self.burst_round = self.round_idx;
                    self.burst_binds = (0, 0);
                }
                self.burst_binds.0 += 1;
            }
        }
        if errno != ERRNO_NONE {
            self.faults.push(FaultRec {
                call_idx: self.call_idx,
                site,
                errno,
                round_idx: self.round_idx,
                t: t_enter,
                running: self.running,
            });
            self.counters.add(&format!("fault.sock.{site:?}.{}", errno_name(errno)), 1);
            self.ev(21, site as u64 * 1000 + errno as u64, 0);
        }
        self.last_call = Some(CallRec {
            site,
            t_enter,
            t_exit: t_enter,
            reads_enter,
            errno,
        });
        errno
    }

    /// Common exit of every socket/platform call.
    pub fn exit(&mut self) {
        self.last_exit = clock::now();
        self.last_exit_reads = clock::reads();
        if let Some(c) = &mut self.last_call {
            c.t_exit = self.last_exit;
        }
    }

    fn pick_errno(&mut self, site: Site) -> i32 {
        let benign = self.tape.chance(self.sc.faults.sock_benign_pm);
        let list: &[i32] = match (site, benign) {
            (Site::NewSocket, _) => &[libc::EMFILE, libc::ENOBUFS, libc::EPERM],
            (Site::Bind, true) => &[libc::EADDRNOTAVAIL, libc::EADDRINUSE, libc::EINPROGRESS],
            (Site::Bind, false) => &[libc::EACCES, libc::EINVAL, libc::EADDRINUSE],
            (Site::SetTtl | Site::SetTos | Site::SetHops | Site::SetHdrIncl | Site::SetReusePort, _) => {
                &[libc::EINVAL, libc::ENOPROTOOPT, libc::EBADF, libc::EPERM, libc::EACCES]
            }
            (Site::Connect, true) => &[libc::ENETUNREACH, libc::EADDRINUSE],
            (Site::Connect, false) => &[
                libc::EHOSTUNREACH,
                libc::EADDRNOTAVAIL,
                libc::ECONNREFUSED,
                libc::EINTR,
                libc::EAGAIN,
                libc::ETIMEDOUT,
            ],
            (Site::SendTo, true) => &[libc::EHOSTUNREACH, libc::ENETUNREACH, libc::EINVAL],
            (Site::SendTo, false) => &[libc::ENOBUFS, libc::EPERM, libc::EAGAIN, libc::EMSGSIZE, libc::EINTR],
            (Site::IsReadable, true) => &[libc::EINTR],
            (Site::IsReadable, false) => &[libc::EBADF, libc::ENOMEM, libc::EINVAL],
            (Site::IsWritable, _) => &[libc::EINTR, libc::EBADF],
            (Site::Read | Site::RecvFrom, true) => &[libc::EAGAIN],
            (Site::Read | Site::RecvFrom, false) => &[libc::EINTR, libc::ECONNREFUSED, libc::ENOBUFS, libc::EHOSTUNREACH],
            (Site::TakeError, _) => &[libc::EBADF, libc::ENOTSOCK],
            (Site::PeerAddr, _) => &[libc::ENOTCONN, libc::EBADF],
            (Site::Shutdown, _) => &[libc::ENOTCONN, libc::EBADF],
            (Site::IfaceLookup | Site::Discover, _) => &[libc::ENETUNREACH],
        };
        list[self.tape.pick(list.len())]
    }

    fn new_sock(&mut self, kind: SockKind, v6: bool, raw: bool) -> IoResult<SimSocket> {
        let errno = self.enter(Site::NewSocket, None);
        let id = self.socks.len();
        let mut attempt = None;
        let opens_attempt = self.running
            && match kind {
                SockKind::Stream => true,
                SockKind::UdpSend => !raw,
                _ => false,
            };
        if opens_attempt {
            attempt = Some(self.open_attempt());
        }
        if errno != ERRNO_NONE {
            if let Some(a) = attempt {
                self.attempts[a].outcome = AttemptOutcome::Failed(Site::NewSocket, errno);
            }
            self.exit();
            return Err(IoError::Other(os(errno), IoOperation::NewSocket));
        }
        self.socks.push(Sock {
            kind,
            v6,
            raw,
            bound: None,
            ttl: None,
            hops: None,
            tos: None,
            hdrincl: !v6 && matches!(kind, SockKind::IcmpSend | SockKind::UdpSend) && raw
                || (!v6 && kind == SockKind::IcmpSend),
            peer: None,
            tcp: TcpState::Idle,
            closed: false,
            attempt,
            shared_attempt: false,
        });
        if kind == SockKind::Recv {
            self.recv_sock = Some(id);
            self.running = true;
            // site counters restart so that scripted faults index calls of the run phase
            self.site_counts.clear();
            self.schedule_chatter();
        }
        self.ev(1, kind as u64, id as u64);
        self.exit();
        Ok(SimSocket { id })
    }

    fn open_attempt(&mut self) -> usize {
        let idx = self.attempts.len();
        let t_hi = self.last_call.map_or(clock::now(), |c| c.t_enter);
        let reads_hi = self.last_call.map_or(clock::reads(), |c| c.reads_enter);
        self.attempts.push(Attempt {
            idx,
            round_idx: self.round_idx,
            t_lo: self.last_exit,
            t_hi,
            reads_lo: self.last_exit_reads,
            reads_hi,
            outcome: AttemptOutcome::Open,
            sport: None,
            dport: None,
            ttl: None,
            call_first: self.call_idx,
            decoded: None,
        });
        idx
    }

    fn fail_attempt(&mut self, sock: usize, site: Site, errno: i32) {
        if let Some(a) = self.socks[sock].attempt {
            if self.attempts[a].outcome == AttemptOutcome::Open {
                self.attempts[a].outcome = AttemptOutcome::Failed(site, errno);
            }
        }
    }

    /// The host address of the tracer in this scenario.
    #[must_use]
    pub fn host_addr(&self) -> IpAddr {
        self.sc.tracer.source
    }

    /// Queue a datagram for the receive socket.
    pub fn deliver(&mut self, mut rec: RespRec) -> usize {
        let id = self.resps.len();
        rec.id = id;
        if let Some(b) = &rec.bytes {
            rec.dgram_len = b.len();
        }
        if rec.bytes.is_some() {
            self.rx_seq += 1;
            self.rx.push(Reverse((rec.t_arrive, self.rx_seq, id)));
        }
        if let Some(w) = rec.wire_id {
            self.wires[w].responses.push(id);
        }
        self.resps.push(rec);
        id
    }

    fn next_due(&self) -> Option<u64> {
        self.rx.peek().map(|Reverse((t, _, _))| *t)
    }
}

/// Keep every delivered datagram for `dump` (set `VERIF_DEBUG_BYTES=1`).
#[must_use]
pub fn debug_bytes() -> bool {
    static ON: std::sync::OnceLock<bool> = std::sync::OnceLock::new();
    *ON.get_or_init(|| std::env::var_os("VERIF_DEBUG_BYTES").is_some())
}

#[must_use]
pub fn os(errno: i32) -> io::Error {
    io::Error::from_raw_os_error(errno)
}

#[must_use]
pub fn errno_name(e: i32) -> &'static str {
    match e {
        libc::EADDRINUSE => "EADDRINUSE",
        libc::EADDRNOTAVAIL => "EADDRNOTAVAIL",
        libc::EINPROGRESS => "EINPROGRESS",
        libc::EHOSTUNREACH => "EHOSTUNREACH",
        libc::ENETUNREACH => "ENETUNREACH",
        libc::EINVAL => "EINVAL",
        libc::EAGAIN => "EAGAIN",
        libc::EINTR => "EINTR",
        libc::ENOBUFS => "ENOBUFS",
        libc::EPERM => "EPERM",
        libc::EBADF => "EBADF",
        libc::ENOMEM => "ENOMEM",
        libc::EMFILE => "EMFILE",
        libc::EACCES => "EACCES",
        libc::ENOPROTOOPT => "ENOPROTOOPT",
        libc::ECONNREFUSED => "ECONNREFUSED",
        libc::ETIMEDOUT => "ETIMEDOUT",
        libc::EMSGSIZE => "EMSGSIZE",
        libc::ENOTCONN => "ENOTCONN",
        libc::ENOTSOCK => "ENOTSOCK",
        _ => "EOTHER",
    }
}

/// The socket handed to the real `Channel`.
#[derive(Debug)]
pub struct SimSocket {
    pub id: usize,
}

impl Drop for SimSocket {
    fn drop(&mut self) {
        let id = self.id;
        let _ = try_with_world(|w| {
            if let Some(s) = w.socks.get_mut(id) {
                s.closed = true;
            }
        });
    }
}

fn sock_setter(id: usize, site: Site, op: IoOperation, f: impl FnOnce(&mut Sock)) -> IoResult<()> {
    with_world(|w| {
        let errno = w.enter(site, Some(id));
        let shared_start = w.pending_shared.take() == Some(id);
        if shared_start {
            let a = w.open_attempt();
            w.socks[id].attempt = Some(a);
            w.socks[id].shared_attempt = true;
        }
        if errno != ERRNO_NONE {
            w.fail_attempt(id, site, errno);
            if shared_start {
                w.socks[id].attempt = None;
                w.socks[id].shared_attempt = false;
            }
            w.exit();
            return Err(IoError::Other(os(errno), op));
        }
        f(&mut w.socks[id]);
        w.exit();
        Ok(())
    })
}

impl Socket for SimSocket {
    fn new_icmp_send_socket_ipv4(raw: bool) -> IoResult<Self> {
        with_world(|w| w.new_sock(SockKind::IcmpSend, false, raw))
    }
    fn new_icmp_send_socket_ipv6(raw: bool) -> IoResult<Self> {
        with_world(|w| w.new_sock(SockKind::IcmpSend, true, raw))
    }
    fn new_udp_send_socket_ipv4(raw: bool) -> IoResult<Self> {
        with_world(|w| w.new_sock(SockKind::UdpSend, false, raw))
    }
    fn new_udp_send_socket_ipv6(raw: bool) -> IoResult<Self> {
        with_world(|w| w.new_sock(SockKind::UdpSend, true, raw))
    }
    fn new_recv_socket_ipv4(_addr: Ipv4Addr, raw: bool) -> IoResult<Self> {
        with_world(|w| w.new_sock(SockKind::Recv, false, raw))
    }
    fn new_recv_socket_ipv6(_addr: Ipv6Addr, raw: bool) -> IoResult<Self> {
        with_world(|w| w.new_sock(SockKind::Recv, true, raw))
    }
    fn new_stream_socket_ipv4() -> IoResult<Self> {
        with_world(|w| w.new_sock(SockKind::Stream, false, false))
    }
    fn new_stream_socket_ipv6() -> IoResult<Self> {
        with_world(|w| w.new_sock(SockKind::Stream, true, false))
    }
    fn new_udp_dgram_socket_ipv4() -> IoResult<Self> {
        with_world(|w| w.new_sock(SockKind::Dgram, false, false))
    }
    fn new_udp_dgram_socket_ipv6() -> IoResult<Self> {
        with_world(|w| w.new_sock(SockKind::Dgram, true, false))
    }

    fn bind(&mut self, address: SocketAddr) -> IoResult<()> {
        let id = self.id;
        with_world(|w| {
            let errno = w.enter(Site::Bind, Some(id));
            if let Some(a) = w.socks[id].attempt {
                w.attempts[a].sport = Some(address.port());
            }
            if errno != ERRNO_NONE {
                if errno == libc::EINPROGRESS {
                    // reported as "in progress": the operation still takes effect
                    w.socks[id].bound = Some(address);
                } else {
                    w.fail_attempt(id, Site::Bind, errno);
                }
                w.exit();
                return Err(IoError::Bind(os(errno), address));
            }
            // binding to an address that is not the host's fails like the kernel does
            if w.socks[id].kind == SockKind::Dgram && address.ip() != w.host_addr() {
                w.exit();
                return Err(IoError::Bind(os(libc::EADDRNOTAVAIL), address));
            }
            w.socks[id].bound = Some(address);
            w.exit();
            Ok(())
        })
    }

    fn set_tos(&mut self, tos: u32) -> IoResult<()> {
        sock_setter(self.id, Site::SetTos, IoOperation::SetTos, |s| s.tos = Some(tos))
    }

    fn set_ttl(&mut self, ttl: u32) -> IoResult<()> {
        let id = self.id;
        let r = sock_setter(id, Site::SetTtl, IoOperation::SetTtl, |s| s.ttl = Some(ttl));
        with_world(|w| {
            if let Some(a) = w.socks[id].attempt {
                w.attempts[a].ttl = Some(ttl.min(255) as u8);
            }
        });
        r
    }

    fn set_reuse_port(&mut self, _reuse: bool) -> IoResult<()> {
        sock_setter(self.id, Site::SetReusePort, IoOperation::SetReusePort, |_| {})
    }

    fn set_header_included(&mut self, included: bool) -> IoResult<()> {
        sock_setter(self.id, Site::SetHdrIncl, IoOperation::SetHeaderIncluded, |s| {
            s.hdrincl = included;
        })
    }

    fn set_unicast_hops_v6(&mut self, hops: u8) -> IoResult<()> {
        let id = self.id;
        // on the shared raw send socket the hop limit is set right before each send: the
        // send attempt starts here
        with_world(|w| {
            if w.running && w.socks[id].attempt.is_none() && matches!(w.socks[id].kind, SockKind::IcmpSend | SockKind::UdpSend) {
                w.pending_shared = Some(id);
            }
        });
        let r = sock_setter(id, Site::SetHops, IoOperation::SetUnicastHopsV6, |s| {
            s.hops = Some(hops);
        });
        with_world(|w| {
            if let Some(a) = w.socks[id].attempt {
                w.attempts[a].ttl = Some(hops);
            }
        });
        r
    }

    fn connect(&mut self, address: SocketAddr) -> IoResult<()> {
        let id = self.id;
        with_world(|w| {
            let errno = w.enter(Site::Connect, Some(id));
            if let Some(a) = w.socks[id].attempt {
                w.attempts[a].dport = Some(address.port());
            }
            if errno != ERRNO_NONE {
                w.fail_attempt(id, Site::Connect, errno);
                w.exit();
                return Err(IoError::Connect(os(errno), address));
            }
            w.socks[id].peer = Some(address);
            w.socks[id].tcp = TcpState::Pending;
            w.tcp_syn_on_wire(id, address);
            w.exit();
            // a non-blocking connect normally reports EINPROGRESS
            Err(IoError::Connect(os(libc::EINPROGRESS), address))
        })
    }

    fn send_to(&mut self, buf: &[u8], addr: SocketAddr) -> IoResult<()> {
        let id = self.id;
        with_world(|w| {
            let errno = w.enter(Site::SendTo, Some(id));
            let mut shared = w.socks[id].shared_attempt;
            if w.socks[id].attempt.is_none() && w.running {
                let a = w.open_attempt();
                w.socks[id].attempt = Some(a);
                w.socks[id].shared_attempt = true;
                shared = true;
            }
            if shared {
                let a = w.socks[id].attempt.expect("shared attempt");
                let would_be = w.wire_bytes(id, buf, addr).0;
                if let Ok(d) = wire::decode_probe(&would_be) {
                    w.attempts[a].ttl = Some(d.ttl);
                    w.attempts[a].sport = Some(d.sport);
                    w.attempts[a].dport = Some(d.dport);
                    w.attempts[a].decoded = Some(d);
                }
            } else if let Some(a) = w.socks[id].attempt {
                w.attempts[a].dport = Some(addr.port());
            }
            if errno != ERRNO_NONE {
                w.fail_attempt(id, Site::SendTo, errno);
                if shared {
                    w.socks[id].attempt = None;
                    w.socks[id].shared_attempt = false;
                }
                w.exit();
                return Err(IoError::SendTo(os(errno), addr));
            }
            w.datagram_on_wire(id, buf, addr);
            if shared {
                w.socks[id].attempt = None;
                w.socks[id].shared_attempt = false;
            }
            w.exit();
            Ok(())
        })
    }

    fn is_readable(&mut self, timeout: Duration) -> IoResult<bool> {
        let id = self.id;
        with_world(|w| {
            let errno = w.enter(Site::IsReadable, Some(id));
            w.readable_marks = [w.readable_marks[1], w.readable_marks[2], clock::reads()];
            let timeout_ns = timeout.as_nanos().min(u128::from(u64::MAX / 4)) as u64;
            if errno == libc::EINTR {
                // interrupted select: returns early, reports "not readable"
                let part = if timeout_ns > 0 {
                    u64::from(w.tape.draw(1000)) * (timeout_ns / 1000)
                } else {
                    0
                };
                clock::advance_by(part);
                w.exit();
                return Ok(false);
            }
            if errno != ERRNO_NONE {
                w.exit();
                return Err(IoError::Other(os(errno), IoOperation::Select));
            }
            let now = clock::now();
            let ready = match w.next_due() {
                Some(t) if t <= now => true,
                Some(t) if t <= now.saturating_add(timeout_ns) => {
                    clock::advance_to(t);
                    true
                }
                _ => {
                    clock::advance_by(timeout_ns);
                    false
                }
            };
            if !ready {
                w.counters.add("reach.read_timeout", 1);
            }
            w.exit();
            Ok(ready)
        })
    }

    fn is_writable(&mut self) -> IoResult<bool> {
        let id = self.id;
        with_world(|w| {
            let errno = w.enter(Site::IsWritable, Some(id));
            if errno == libc::EINTR {
                w.exit();
                return Ok(false);
            }
            if errno != ERRNO_NONE {
                w.exit();
                return Err(IoError::Other(os(errno), IoOperation::Select));
            }
            let now = clock::now();
            let ready = match w.socks[id].tcp {
                TcpState::Established { at, .. } | TcpState::Refused { at, .. } | TcpState::Failed { at, .. } => at <= now,
                _ => false,
            };
            w.exit();
            Ok(ready)
        })
    }

    fn recv_from(&mut self, buf: &mut [u8]) -> IoResult<(usize, Option<SocketAddr>)> {
        let id = self.id;
        with_world(|w| w.recv(id, buf, Site::RecvFrom, IoOperation::RecvFrom))
    }

    fn read(&mut self, buf: &mut [u8]) -> IoResult<usize> {
        let id = self.id;
        with_world(|w| w.recv(id, buf, Site::Read, IoOperation::Read).map(|(n, _)| n))
    }

    fn shutdown(&mut self) -> IoResult<()> {
        sock_setter(self.id, Site::Shutdown, IoOperation::Shutdown, |_| {})
    }

    fn peer_addr(&mut self) -> IoResult<Option<SocketAddr>> {
        let id = self.id;
        with_world(|w| {
            let errno = w.enter(Site::PeerAddr, Some(id));
            if errno != ERRNO_NONE {
                w.exit();
                return Err(IoError::Other(os(errno), IoOperation::PeerAddr));
            }
            let p = w.socks[id].peer;
            w.exit();
            Ok(p)
        })
    }

    fn take_error(&mut self) -> IoResult<Option<SocketError>> {
        let id = self.id;
        with_world(|w| {
            let errno = w.enter(Site::TakeError, Some(id));
            if errno != ERRNO_NONE {
                w.exit();
                return Err(IoError::Other(os(errno), IoOperation::TakeError));
            }
            let now = clock::now();
            let res = match w.socks[id].tcp {
                TcpState::Established { resp, .. } => {
                    w.hand_over(resp);
                    None
                }
                TcpState::Refused { resp, .. } => {
                    w.hand_over(resp);
                    Some(SocketError::ConnectionRefused)
                }
                TcpState::Failed { errno, .. } => Some(SocketError::Other(os(errno))),
                _ => {
                    let _ = now;
                    None
                }
            };
            w.exit();
            Ok(res)
        })
    }

    fn icmp_error_info(&mut self) -> IoResult<IpAddr> {
        Ok(IpAddr::V4(Ipv4Addr::UNSPECIFIED))
    }
}

impl World {
    /// Record that response `resp` was handed to the tracer by the socket call in progress.
    pub fn hand_over(&mut self, resp: usize) {
        let info = HandInfo {
            t_exit: clock::now(),
            call_idx: self.call_idx,
            round_idx: self.round_idx,
            reads_at_exit: clock::reads(),
        };
        let r = &mut self.resps[resp];
        if r.handed.is_none() {
            r.handed = Some(info);
        }
        let (class, kind, wire) = (r.class, r.kind, r.wire_id);
        self.counters.add(&format!("handed.{class:?}"), 1);
        let ttl = wire
            .and_then(|w| self.wires[w].decoded.as_ref().ok().map(|d| u64::from(d.ttl)))
            .unwrap_or(0);
        self.ev(3, (class as u64) * 100_000 + (kind as u64) * 1000 + ttl, resp as u64);
        // a late response: genuine, but for a probe of an earlier round
        if let Some(w) = wire {
            if class == RespClass::Genuine && self.wires[w].round_idx != self.round_idx {
                self.counters.add("reach.late_response_handed", 1);
            }
        }
    }

    fn recv(&mut self, id: usize, buf: &mut [u8], site: Site, op: IoOperation) -> IoResult<(usize, Option<SocketAddr>)> {
        let errno = self.enter(site, Some(id));
        if errno != ERRNO_NONE {
            self.exit();
            return Err(IoError::Other(os(errno), op));
        }
        let now = clock::now();
        let due = matches!(self.next_due(), Some(t) if t <= now);
        if !due {
            self.exit();
            return Err(IoError::Other(os(libc::EAGAIN), op));
        }
        let Reverse((_, _, rid)) = self.rx.pop().expect("due datagram");
        let bytes = self.resps[rid].bytes.take().unwrap_or_default();
        if self.sc.inject.replay_prev_round_pm > 0 || self.sc.record_rx || debug_bytes() {
            self.resps[rid].kept = Some(bytes.clone());
        }
        let src = self.resps[rid].src;
        let n = bytes.len().min(buf.len());
        buf[..n].copy_from_slice(&bytes[..n]);
        if bytes.len() > buf.len() {
            self.counters.add("reach.datagram_truncated_by_buffer", 1);
        }
        if self.sc.sniff && self.sniff_failure.is_none() {
            let rep = crate::sniff::sniff_received(&buf[..n], self.sc.tracer.v6);
            self.sniff_views += rep.views;
            self.sniff_failure = rep.failure;
        }
        self.hand_over(rid);
        self.exit();
        Ok((n, src))
    }

    /// Called by the runner when the tracer publishes a round.
    pub fn on_publish(&mut self) {
        self.replay_previous_round(self.round_idx);
        self.round_idx += 1;
        self.schedule_chatter();
        if let Some((r, paths)) = &self.sc.net.route_change {
            if *r == self.round_idx {
                self.paths_now = paths.clone();
                self.counters.add("fault.route_change", 1);
            }
        }
    }
}

/// The platform handed to the real source-address discovery.
pub struct SimPlatform;

impl Platform for SimPlatform {
    fn byte_order_for_address(_addr: IpAddr) -> CoreResult<Ipv4ByteOrder> {
        Ok(Ipv4ByteOrder::Network)
    }

    fn lookup_interface_addr(_addr: IpAddr, name: &str) -> CoreResult<IpAddr> {
        with_world(|w| {
            let errno = w.enter(Site::IfaceLookup, None);
            let r = if errno != ERRNO_NONE || w.sc.tracer.interface.as_deref() != Some(name) {
                Err(CoreError::UnknownInterface(name.to_string()))
            } else {
                Ok(w.host_addr())
            };
            w.exit();
            r
        })
    }

    fn discover_local_addr(_target_addr: IpAddr, _port: u16) -> CoreResult<IpAddr> {
        with_world(|w| {
            let errno = w.enter(Site::Discover, None);
            let r = if errno != ERRNO_NONE {
                Err(CoreError::IoError(IoError::Other(os(errno), IoOperation::NewSocket)))
            } else {
                Ok(w.host_addr())
            };
            w.exit();
            r
        })
    }
}

/// Helpers shared with the network model.
impl World {
    /// Synthesize the IP datagram a non-header-included socket would put on the wire.
    pub fn synth_ip(&mut self, sock: usize, proto: u8, l4: &[u8], dst: IpAddr) -> Vec<u8> {
        let s = &self.socks[sock];
        match (self.host_addr(), dst) {
            (IpAddr::V4(src), IpAddr::V4(dst)) => {
                let ttl = s.ttl.unwrap_or(64).min(255) as u8;
                let tos = s.tos.unwrap_or(0).min(255) as u8;
                // kernel-chosen identification; DF set (path MTU discovery default)
                let id = (simcore::mix64(self.wires.len() as u64 ^ 0xabcd) & 0xffff) as u16;
                let h = wire::Ipv4Hdr {
                    ihl: 5,
                    tos,
                    total_len: (20 + l4.len()) as u16,
                    id,
                    flags_frag: 0x4000,
                    ttl,
                    proto,
                    csum: 0,
                    src,
                    dst,
                };
                let mut v = h.encode().to_vec();
                v.extend_from_slice(l4);
                v
            }
            (IpAddr::V6(src), IpAddr::V6(dst)) => {
                let hop_limit = s.hops.unwrap_or(64);
                let h = wire::Ipv6Hdr {
                    traffic_class: 0,
                    flow_label: (simcore::mix64(self.wires.len() as u64 ^ 0x77) & 0xfffff) as u32,
                    payload_len: l4.len() as u16,
                    next: proto,
                    hop_limit,
                    src,
                    dst,
                };
                let mut v = h.encode().to_vec();
                v.extend_from_slice(l4);
                v
            }
            _ => Vec::new(),
        }
    }
}
