//! Virtual clock by link-time interposition of `clock_gettime`.
//!
//! std is linked statically into the harness binary, so its reference to `clock_gettime`
//! resolves to the definition below.  A thread-local flag selects virtual or real time per
//! thread; both `SystemTime` and `Instant` follow the virtual clock when it is on.
//!
//! Every read returns the current virtual instant and then advances it by a *tick* (CPU
//! time between two observable actions), so two reads never return the same instant.
//! Every value handed to the system under test is appended to a per-thread log that the
//! oracles index by position ("first clock read after socket call i").

use std::cell::{Cell, RefCell};

/// Virtual epoch: 2023-11-14T22:13:20Z in nanoseconds.
pub const EPOCH_NS: u64 = 1_700_000_000_000_000_000;

thread_local! {
    static ENABLED: Cell<bool> = const { Cell::new(false) };
    static NOW: Cell<u64> = const { Cell::new(EPOCH_NS) };
    static TICK_BASE: Cell<u64> = const { Cell::new(100) };
    static TICK_JITTER: Cell<u64> = const { Cell::new(0) };
    static TICK_RNG: Cell<u64> = const { Cell::new(0x9E37_79B9_7F4A_7C15) };
    static READS: Cell<u64> = const { Cell::new(0) };
    static TICKS_TOTAL: Cell<u64> = const { Cell::new(0) };
    static LOG_ON: Cell<bool> = const { Cell::new(true) };
    /// How far the wall clock (CLOCK_REALTIME) lags behind virtual time: a backward step of
    /// the system clock (an NTP correction, an operator) while the monotonic clock runs on.
    static WALL_BACK: Cell<u64> = const { Cell::new(0) };
    static LOG: RefCell<Vec<u64>> = const { RefCell::new(Vec::new()) };
}

/// Turn the virtual clock on for this thread, starting at `start_ns`, with per-read ticks
/// of `base + [0, jitter]` nanoseconds drawn from a private xorshift seeded by `seed`.
/// (`base` 0 = time only moves when the simulator moves it; the tracer runs always use a
/// base of at least 1 so that two reads never return the same instant.)
pub fn enable(start_ns: u64, base: u64, jitter: u64, seed: u64) {
    NOW.with(|c| c.set(start_ns));
    TICK_BASE.with(|c| c.set(base));
    TICK_JITTER.with(|c| c.set(jitter));
    TICK_RNG.with(|c| c.set(seed | 1));
    READS.with(|c| c.set(0));
    TICKS_TOTAL.with(|c| c.set(0));
    LOG.with(|l| l.borrow_mut().clear());
    LOG_ON.with(|c| c.set(true));
    ENABLED.with(|c| c.set(true));
}

/// Turn the virtual clock off for this thread.
/// Step the wall clock back by `ns` (virtual and monotonic time are not affected).
pub fn step_wall_clock_back(ns: u64) {
    WALL_BACK.with(|c| c.set(c.get() + ns));
}

pub fn disable() {
    WALL_BACK.with(|c| c.set(0));
    ENABLED.with(|c| c.set(false));
}

#[must_use]
pub fn is_enabled() -> bool {
    ENABLED.with(Cell::get)
}

/// Keep (or stop keeping) the log of returned values.
pub fn set_logging(on: bool) {
    LOG_ON.with(|c| c.set(on));
}

/// The current virtual instant, without ticking (harness use only).
#[must_use]
pub fn now() -> u64 {
    NOW.with(Cell::get)
}

/// Move the virtual clock forward to `t` (never backwards).
pub fn advance_to(t: u64) {
    NOW.with(|c| {
        if t > c.get() {
            c.set(t);
        }
    });
}

/// Move the virtual clock forward by `d` nanoseconds.
pub fn advance_by(d: u64) {
    NOW.with(|c| c.set(c.get().saturating_add(d)));
}

/// Number of clock reads served to the system under test so far.
#[must_use]
pub fn reads() -> u64 {
    READS.with(Cell::get)
}

/// Sum of all ticks added so far.
#[must_use]
pub fn ticks_total() -> u64 {
    TICKS_TOTAL.with(Cell::get)
}

/// The `i`-th value returned to the system under test (0-based), relative to the log
/// start (see `log_base`).
#[must_use]
pub fn log_get(i: u64) -> Option<u64> {
    LOG.with(|l| l.borrow().get(i as usize).copied())
}

/// Copy of the log.
#[must_use]
pub fn log_snapshot() -> Vec<u64> {
    LOG.with(|l| l.borrow().clone())
}

/// Length of the log.
#[must_use]
pub fn log_len() -> u64 {
    LOG.with(|l| l.borrow().len() as u64)
}

fn serve() -> u64 {
    let now = NOW.with(Cell::get);
    let jitter = TICK_JITTER.with(Cell::get);
    let mut tick = TICK_BASE.with(Cell::get);
    if jitter > 0 {
        let mut x = TICK_RNG.with(Cell::get);
        x ^= x << 13;
        x ^= x >> 7;
        x ^= x << 17;
        TICK_RNG.with(|c| c.set(x));
        tick += x % (jitter + 1);
    }
    NOW.with(|c| c.set(now + tick));
    READS.with(|c| c.set(c.get() + 1));
    TICKS_TOTAL.with(|c| c.set(c.get() + tick));
    if LOG_ON.with(Cell::get) {
        // try_borrow_mut: a harness bug must not turn into a panic inside libc's caller
        LOG.with(|l| {
            if let Ok(mut v) = l.try_borrow_mut() {
                v.push(now);
            }
        });
    }
    now
}

/// The interposed libc symbol.
///
/// # Safety
/// `ts` must be a valid pointer to a `timespec` (the libc contract).
#[no_mangle]
pub unsafe extern "C" fn clock_gettime(clk: libc::clockid_t, ts: *mut libc::timespec) -> libc::c_int {
    let enabled = ENABLED.try_with(Cell::get).unwrap_or(false);
    if enabled && !ts.is_null() {
        let mut now = serve();
        if clk == libc::CLOCK_REALTIME || clk == libc::CLOCK_REALTIME_COARSE {
            now = now.saturating_sub(WALL_BACK.try_with(Cell::get).unwrap_or(0));
        }
        (*ts).tv_sec = (now / 1_000_000_000) as libc::time_t;
        (*ts).tv_nsec = (now % 1_000_000_000) as libc::c_long;
        0
    } else {
        libc::syscall(libc::SYS_clock_gettime, clk, ts) as libc::c_int
    }
}

/// Convert a `SystemTime` produced under the virtual clock back to virtual nanoseconds.
#[must_use]
pub fn to_ns(t: std::time::SystemTime) -> u64 {
    t.duration_since(std::time::UNIX_EPOCH)
        .map(|d| d.as_nanos() as u64)
        .unwrap_or(0)
}
