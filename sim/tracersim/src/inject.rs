//! Adversarial deliveries: responses that must not change the trace (C02 negative half, C03).

use crate::clock;
use crate::net::{build_error, carrier, Carrier};
use crate::scenario::{Ports, Proto, Quote};
use crate::wire::{self, ErrorLayout};
use crate::world::{RespClass, RespKind, RespRec, World};
use std::net::{IpAddr, Ipv4Addr, Ipv6Addr, SocketAddr};

/// Which identity-bearing field of a genuine probe a foreign datagram differs in.
#[derive(Debug, Clone, Copy, PartialEq, Eq)]
pub enum ForeignKind {
    OtherDestination,
    OtherFixedPort,
    OtherProtocol,
    NoMagic,
    /// Dublin/IPv6: someone else's datagram to the same ports whose payload is shorter than
    /// the marker (empty, or a proper prefix of it).
    ShortNoMagic,
    OtherTraceId,
}

fn l4_off(dg: &[u8]) -> usize {
    if dg[0] >> 4 == 6 {
        40
    } else {
        usize::from(dg[0] & 0x0f) * 4
    }
}

fn fix_l4_checksum(dg: &mut [u8]) {
    let v6 = dg[0] >> 4 == 6;
    let l4 = l4_off(dg);
    let proto = if v6 { dg[6] } else { dg[9] };
    let (field, min) = match proto {
        wire::PROTO_ICMP | wire::PROTO_ICMPV6 => (2usize, 8usize),
        wire::PROTO_UDP => (6, 8),
        wire::PROTO_TCP => (16, 20),
        _ => return,
    };
    if dg.len() < l4 + min {
        return;
    }
    dg[l4 + field] = 0;
    dg[l4 + field + 1] = 0;
    let seg = &dg[l4..];
    let c = if v6 {
        let mut s = [0u8; 16];
        let mut d = [0u8; 16];
        s.copy_from_slice(&dg[8..24]);
        d.copy_from_slice(&dg[24..40]);
        wire::inet_checksum(&[&wire::pseudo_v6(Ipv6Addr::from(s), Ipv6Addr::from(d), proto, seg.len() as u32), seg])
    } else if proto == wire::PROTO_ICMP {
        wire::inet_checksum(&[seg])
    } else {
        let s = Ipv4Addr::new(dg[12], dg[13], dg[14], dg[15]);
        let d = Ipv4Addr::new(dg[16], dg[17], dg[18], dg[19]);
        wire::inet_checksum(&[&wire::pseudo_v4(s, d, proto, seg.len() as u16), seg])
    };
    dg[l4 + field..l4 + field + 2].copy_from_slice(&c.to_be_bytes());
}

impl World {
    fn seq_carrier(&self) -> Carrier {
        let t = &self.sc.tracer;
        match t.proto {
            Proto::Tcp => {
                if matches!(t.ports, Ports::FixedSrc(_)) {
                    Carrier::DestPort
                } else {
                    Carrier::SrcPort
                }
            }
            _ => carrier(t.proto, t.strat, t.v6, matches!(t.ports, Ports::FixedDest(_))),
        }
    }

    /// Rewrite the sequence carrier of probe datagram `dg` to `seq`; returns the sequence
    /// the datagram names afterwards (the payload-length carrier cannot express all values).
    fn rewrite_sequence(&self, dg: &mut Vec<u8>, seq: u16) -> u16 {
        let l4 = l4_off(dg);
        match self.seq_carrier() {
            Carrier::IcmpSeq => {
                dg[l4 + 6..l4 + 8].copy_from_slice(&seq.to_be_bytes());
                fix_l4_checksum(dg);
            }
            Carrier::SrcPort => {
                dg[l4..l4 + 2].copy_from_slice(&seq.to_be_bytes());
                fix_l4_checksum(dg);
            }
            Carrier::DestPort => {
                dg[l4 + 2..l4 + 4].copy_from_slice(&seq.to_be_bytes());
                fix_l4_checksum(dg);
            }
            Carrier::UdpChecksum => {
                dg[l4 + 6..l4 + 8].copy_from_slice(&seq.to_be_bytes());
            }
            Carrier::IpId => {
                dg[4..6].copy_from_slice(&seq.to_be_bytes());
                wire::fix_ipv4_checksum(dg);
            }
            Carrier::PayloadLen => {
                let n = usize::from(seq.wrapping_sub(self.sc.tracer.initial_seq)) % 900;
                dg.truncate(l4 + 8 + 6);
                dg.resize(l4 + 8 + 6 + n, self.sc.tracer.pattern);
                let udp_len = (8 + 6 + n) as u16;
                dg[l4 + 4..l4 + 6].copy_from_slice(&udp_len.to_be_bytes());
                dg[4..6].copy_from_slice(&udp_len.to_be_bytes());
                fix_l4_checksum(dg);
                return self.sc.tracer.initial_seq.wrapping_add(n as u16);
            }
        }
        seq
    }

    /// Deliver a forged response for datagram `dg` (which the tracer did not send as such).
    fn deliver_forged(&mut self, dg: &[u8], class: RespClass, as_target: bool, note: &'static str, forged_seq: Option<u16>) {
        let host = self.host_addr();
        let v6 = dg[0] >> 4 == 6;
        let proto = if v6 { dg[6] } else { dg[9] };
        let target = self.sc.tracer.target;
        let delay = self.sc.net.hop_delay_ns * 2 + u64::from(self.tape.skewed(3000)) * 1000;
        let t_arrive = clock::now() + delay;
        let (bytes, src, kind, code, responder) = if as_target && (proto == wire::PROTO_ICMP || proto == wire::PROTO_ICMPV6) {
            let l4 = l4_off(dg);
            match (target, host) {
                (IpAddr::V4(f), IpAddr::V4(h)) => {
                    let m = wire::build_icmpv4_echo_reply(&dg[l4..]);
                    (wire::wrap_ipv4(f, h, wire::PROTO_ICMP, 60, 0, 0x7777, &m), None, RespKind::EchoReply, 0, target)
                }
                (IpAddr::V6(f), IpAddr::V6(h)) => (
                    wire::build_icmpv6_echo_reply(f, h, &dg[l4..]),
                    Some(SocketAddr::new(target, 0)),
                    RespKind::EchoReply,
                    0,
                    target,
                ),
                _ => return,
            }
        } else {
            let (from, kind, code) = if as_target {
                (target, RespKind::Unreachable, if v6 { 4 } else { 3 })
            } else {
                (crate::scenario::router_addr(v6, 1 + self.tape.draw(6), 0, 0), RespKind::TimeExceeded, 0)
            };
            let b = build_error(dg, from, host, kind, code, Quote::Full, &ErrorLayout::Plain, 1, 3);
            (b.bytes, b.src, kind, code, from)
        };
        self.counters.add(&format!("inject.{note}"), 1);
        self.ev(12, class as u64, 0);
        let id = self.deliver(RespRec {
            id: 0,
            wire_id: None,
            class,
            kind,
            code,
            responder,
            quoted_tos: None,
            exts: None,
            ambiguous_ext: false,
            rfc4884_len: 0,
            quoted_udp_csum: None,
            t_arrive,
            handed: None,
            bytes: Some(bytes),
            src,
            note,
            kept: None,
            replay_of_wire: None,
                    dgram_len: 0,
                    rewritten: (false, false),
        });
        if let Some(s) = forged_seq {
            self.forged_seqs.push((id, s));
        }
    }

    /// Called after a genuine probe went onto the wire.
    pub fn maybe_inject(&mut self, wire_id: usize) {
        let inj = self.sc.inject;
        if inj == crate::scenario::InjectCfg::default() {
            return;
        }
        let Ok(d) = self.wires[wire_id].decoded.clone() else { return };
        let dg = self.wires[wire_id].bytes.clone();
        let t = self.sc.tracer.clone();
        // the sequence this probe carries
        let cur = match self.seq_carrier() {
            Carrier::IcmpSeq => d.icmp_seq,
            Carrier::SrcPort => d.sport,
            Carrier::DestPort => d.dport,
            Carrier::UdpChecksum => d.l4_csum,
            Carrier::IpId => d.ip_id,
            Carrier::PayloadLen => t.initial_seq.wrapping_add(d.udp_len.saturating_sub(14)),
        };
        if self.round_first_seq.map_or(true, |(r, _)| r != self.round_idx) {
            self.round_first_seq = Some((self.round_idx, cur));
        }
        let first = self.round_first_seq.map_or(cur, |(_, s)| s);
        if inj.never_sent_pm > 0 && self.tape.chance(inj.never_sent_pm) {
            // a sequence this round has not issued (and, for the in-window choices, is very
            // unlikely to issue before the forgery arrives)
            let seq = match self.tape.pick(5) {
                0 => cur.wrapping_add(1 + self.tape.draw(40) as u16),
                1 => cur.wrapping_add(100 + self.tape.draw(300) as u16),
                2 => first.wrapping_add(512 + self.tape.draw(2000) as u16),
                3 => first.wrapping_sub(1 + self.tape.draw(600) as u16),
                _ => first.wrapping_add(self.tape.draw(512) as u16),
            };
            if seq != cur {
                let mut f = dg.clone();
                let named = self.rewrite_sequence(&mut f, seq);
                let as_target = self.tape.chance(500);
                if named != cur {
                    self.deliver_forged(&f, RespClass::NeverSent, as_target, "never_sent", Some(named));
                }
            }
        }
        if inj.foreign_pm > 0 && self.tape.chance(inj.foreign_pm) {
            let mut f = dg.clone();
            let l4 = l4_off(&f);
            let kinds: &[ForeignKind] = match t.proto {
                Proto::Icmp if inj.icmp_other_destination => &[ForeignKind::OtherTraceId, ForeignKind::OtherProtocol, ForeignKind::OtherDestination],
                Proto::Icmp => &[ForeignKind::OtherTraceId, ForeignKind::OtherProtocol],
                Proto::Udp if t.v6 && t.strat == crate::scenario::Strat::Dublin => &[
                    ForeignKind::OtherDestination,
                    ForeignKind::OtherFixedPort,
                    ForeignKind::OtherProtocol,
                    ForeignKind::NoMagic,
                    ForeignKind::ShortNoMagic,
                ],
                _ => &[ForeignKind::OtherDestination, ForeignKind::OtherFixedPort, ForeignKind::OtherProtocol],
            };
            let kind = kinds[self.tape.pick(kinds.len())];
            match kind {
                ForeignKind::OtherDestination => {
                    if f[0] >> 4 == 6 {
                        f[39] ^= 0x55;
                    } else {
                        f[19] ^= 0x55;
                        wire::fix_ipv4_checksum(&mut f);
                    }
                    fix_l4_checksum(&mut f);
                }
                ForeignKind::OtherFixedPort => {
                    // the port the configuration holds fixed
                    let off = match t.ports {
                        Ports::FixedSrc(_) => 0,
                        Ports::FixedDest(_) => 2,
                        Ports::FixedBoth(..) => 2 * self.tape.pick(2),
                        Ports::None => 0,
                    };
                    let old = u16::from_be_bytes([f[l4 + off], f[l4 + off + 1]]);
                    let new = old ^ (1 + self.tape.draw(0xfffe) as u16);
                    f[l4 + off..l4 + off + 2].copy_from_slice(&new.to_be_bytes());
                    if self.seq_carrier() != Carrier::UdpChecksum {
                        fix_l4_checksum(&mut f);
                    }
                }
                ForeignKind::OtherProtocol => {
                    // any protocol number but the tracer's own: the usual three, the ICMP of
                    // the other address family, and arbitrary ones
                    let own = match (t.proto, t.v6) {
                        (Proto::Icmp, false) => wire::PROTO_ICMP,
                        (Proto::Icmp, true) => wire::PROTO_ICMPV6,
                        (Proto::Udp, _) => wire::PROTO_UDP,
                        (Proto::Tcp, _) => wire::PROTO_TCP,
                    };
                    let pool = [wire::PROTO_UDP, wire::PROTO_TCP, wire::PROTO_ICMP, wire::PROTO_ICMPV6, 0, 2, 47, 132, 255];
                    let mut other = pool[self.tape.pick(pool.len())];
                    if other == own {
                        other = if own == wire::PROTO_UDP { wire::PROTO_TCP } else { wire::PROTO_UDP };
                    }
                    if f[0] >> 4 == 6 {
                        f[6] = other;
                    } else {
                        f[9] = other;
                        wire::fix_ipv4_checksum(&mut f);
                    }
                }
                ForeignKind::NoMagic => {
                    if f.len() >= l4 + 8 + 6 {
                        f[l4 + 8] ^= 0x20;
                        fix_l4_checksum(&mut f);
                    }
                }
                ForeignKind::ShortNoMagic => {
                    if f.len() >= l4 + 8 + 6 {
                        let n = self.tape.draw(6) as usize;
                        f.truncate(l4 + 8 + n);
                        if self.tape.chance(300) && n > 0 {
                            f[l4 + 8 + n - 1] ^= 0x01;
                        }
                        let udp_len = (8 + n) as u16;
                        f[l4 + 4..l4 + 6].copy_from_slice(&udp_len.to_be_bytes());
                        f[4..6].copy_from_slice(&udp_len.to_be_bytes());
                        fix_l4_checksum(&mut f);
                    }
                }
                ForeignKind::OtherTraceId => {
                    let old = u16::from_be_bytes([f[l4 + 4], f[l4 + 5]]);
                    let mut new = old ^ (1 + self.tape.draw(0xfffe) as u16);
                    if new == 0 {
                        new = old.wrapping_add(1).max(1);
                    }
                    f[l4 + 4..l4 + 6].copy_from_slice(&new.to_be_bytes());
                    fix_l4_checksum(&mut f);
                }
            }
            // an echo reply does not quote the destination: "other destination" is only
            // expressible as an ICMP error
            // ... nor the protocol of the answered datagram
            let as_target = self.tape.chance(400) && !(t.proto == Proto::Icmp && matches!(kind, ForeignKind::OtherDestination | ForeignKind::OtherProtocol));
            let note = match kind {
                ForeignKind::OtherDestination => "foreign.other-destination",
                ForeignKind::OtherFixedPort => "foreign.other-fixed-port",
                ForeignKind::OtherProtocol => "foreign.other-protocol",
                ForeignKind::NoMagic => "foreign.no-magic",
                ForeignKind::ShortNoMagic => "foreign.short-no-magic",
                ForeignKind::OtherTraceId => "foreign.other-trace-id",
            };
            self.deliver_forged(&f, RespClass::Foreign, as_target, note, None);
        }
        if inj.unrelated_pm > 0 && self.tape.chance(inj.unrelated_pm) {
            let t_arrive = clock::now() + self.sc.net.hop_delay_ns + u64::from(self.tape.skewed(2000)) * 1000;
            self.inject_unrelated(&dg, t_arrive);
        }
    }

    /// Background chatter (`InjectCfg::chatter_gap_ns`) for the time from now to the latest
    /// end of the round that is starting: called when the receive socket is opened and after
    /// every published round.
    pub fn schedule_chatter(&mut self) {
        let gap = self.sc.inject.chatter_gap_ns;
        if gap == 0 {
            return;
        }
        let t = &self.sc.tracer;
        let until = clock::now() + t.max_round_ns + 2 * t.read_timeout_ns;
        let v6 = t.v6;
        // what the quoting kinds quote: the last probe sent, or a minimal stand-in
        let quoted: Vec<u8> = self.wires.last().map_or_else(
            || if v6 { let mut q = vec![0u8; 48]; q[0] = 0x60; q } else { let mut q = vec![0u8; 28]; q[0] = 0x45; q },
            |w| w.bytes.clone(),
        );
        let mut at = self.chatter_until.max(clock::now());
        let mut n = 0;
        while at < until && n < 4096 {
            at += gap / 2 + u64::from(self.tape.draw((gap / 1000).max(1) as u32)) * 1000;
            self.inject_unrelated(&quoted, at);
            self.counters.add("inject.chatter", 1);
            n += 1;
        }
        self.chatter_until = at;
    }

    fn inject_unrelated(&mut self, probe: &[u8], t_arrive: u64) {
        let host = self.host_addr();
        let v6 = probe[0] >> 4 == 6;
        let from = crate::scenario::router_addr(v6, 3, 0, 0);
        let which = self.tape.pick(5);
        let (bytes, src) = match (from, host) {
            (IpAddr::V4(f), IpAddr::V4(h)) => {
                let m: Vec<u8> = match which {
                    // echo request addressed to us
                    0 => {
                        let mut m = vec![8u8, 0, 0, 0, 0x12, 0x34, 0, 1, 1, 2, 3, 4];
                        let c = wire::inet_checksum(&[&m]);
                        m[2..4].copy_from_slice(&c.to_be_bytes());
                        m
                    }
                    // fragment reassembly time exceeded quoting the probe
                    1 => wire::build_icmpv4_error(11, 1, &probe[..probe.len().min(28)], &ErrorLayout::Plain),
                    // redirect quoting the probe
                    2 => wire::build_icmpv4_error(5, 1, &probe[..probe.len().min(28)], &ErrorLayout::Plain),
                    // parameter problem
                    3 => wire::build_icmpv4_error(12, 0, &probe[..probe.len().min(28)], &ErrorLayout::Plain),
                    // source quench, no quotation at all
                    _ => {
                        let mut m = vec![4u8, 0, 0, 0, 0, 0, 0, 0];
                        let c = wire::inet_checksum(&[&m]);
                        m[2..4].copy_from_slice(&c.to_be_bytes());
                        m
                    }
                };
                (wire::wrap_ipv4(f, h, wire::PROTO_ICMP, 61, 0, 0x4242, &m), None)
            }
            (IpAddr::V6(f), IpAddr::V6(h)) => {
                let q = &probe[..probe.len().min(96)];
                let m = match which {
                    // echo request addressed to us
                    0 => {
                        let mut m = vec![128u8, 0, 0, 0, 0x12, 0x34, 0, 1, 9, 9];
                        let p = wire::pseudo_v6(f, h, wire::PROTO_ICMPV6, m.len() as u32);
                        let c = wire::inet_checksum(&[&p, &m]);
                        m[2..4].copy_from_slice(&c.to_be_bytes());
                        m
                    }
                    1 => wire::build_icmpv6_error(f, h, 3, 1, q, &ErrorLayout::Plain),
                    2 => wire::build_icmpv6_error(f, h, 2, 0, q, &ErrorLayout::Plain),
                    3 => wire::build_icmpv6_error(f, h, 4, 0, q, &ErrorLayout::Plain),
                    _ => wire::build_icmpv6_error(f, h, 135, 0, &[0u8; 16], &ErrorLayout::Plain),
                };
                (m, Some(SocketAddr::new(from, 0)))
            }
            _ => return,
        };
        self.counters.add("inject.unrelated", 1);
        self.ev(12, 99, 0);
        self.deliver(RespRec {
            id: 0,
            wire_id: None,
            class: RespClass::Unrelated,
            kind: RespKind::Other,
            code: 0,
            responder: from,
            quoted_tos: None,
            exts: None,
            ambiguous_ext: false,
            rfc4884_len: 0,
            quoted_udp_csum: None,
            t_arrive,
            handed: None,
            bytes: Some(bytes),
            src,
            note: "unrelated",
            kept: None,
            replay_of_wire: None,
                    dgram_len: 0,
                    rewritten: (false, false),
        });
    }

    /// Re-deliver the responses handed over during the round that was just published.
    pub fn replay_previous_round(&mut self, finished_round: u32) {
        let pm = self.sc.inject.replay_prev_round_pm;
        if pm == 0 {
            return;
        }
        let ids: Vec<usize> = self
            .resps
            .iter()
            .filter(|r| r.handed.is_some_and(|h| h.round_idx == finished_round))
            // only genuine traffic is replayed: a replayed forgery could name a sequence
            // that the next round really issues, which no tracer can tell apart
            .filter(|r| r.kept.is_some() && matches!(r.class, RespClass::Genuine | RespClass::Duplicate))
            .map(|r| r.id)
            .collect();
        for id in ids {
            if pm < 1000 && !self.tape.chance(pm) {
                continue;
            }
            let mut copy = self.resps[id].clone();
            copy.class = RespClass::Replay;
            copy.handed = None;
            copy.bytes = copy.kept.clone();
            if !crate::world::debug_bytes() {
                copy.kept = None;
            }
            copy.t_arrive = clock::now() + u64::from(self.tape.skewed(5000)) * 1000;
            copy.note = "replay-prev-round";
            self.counters.add("inject.replay_prev_round", 1);
            // a replayed datagram is not a response to any probe of the new round
            let wire = copy.wire_id.take();
            copy.replay_of_wire = wire;
            self.deliver(copy);
        }
    }
}
