//! Independent RFC 791/792/768/793/8200/4443/4884/4950 encoder/decoder and checksum.
//!
//! Written for the harness; shares no code with `trippy-packet`.  It is used by the
//! simulated routers (what to do with a probe, how to quote it), and by oracles that need
//! the on-wire truth.

use std::net::{IpAddr, Ipv4Addr, Ipv6Addr};

pub const PROTO_ICMP: u8 = 1;
pub const PROTO_TCP: u8 = 6;
pub const PROTO_UDP: u8 = 17;
pub const PROTO_ICMPV6: u8 = 58;

/// RFC 1071 one's complement sum over `chunks` (as if concatenated; each chunk but the
/// last must have even length), returned un-complemented and folded.
#[must_use]
pub fn ones_sum(chunks: &[&[u8]]) -> u16 {
    let mut sum: u32 = 0;
    for chunk in chunks {
        let mut i = 0;
        while i + 1 < chunk.len() {
            sum += u32::from(u16::from_be_bytes([chunk[i], chunk[i + 1]]));
            i += 2;
        }
        if i < chunk.len() {
            sum += u32::from(chunk[i]) << 8;
        }
        while sum > 0xffff {
            sum = (sum & 0xffff) + (sum >> 16);
        }
    }
    sum as u16
}

/// Internet checksum of `chunks`.
#[must_use]
pub fn inet_checksum(chunks: &[&[u8]]) -> u16 {
    !ones_sum(chunks)
}

#[must_use]
pub fn pseudo_v4(src: Ipv4Addr, dst: Ipv4Addr, proto: u8, len: u16) -> [u8; 12] {
    let mut p = [0u8; 12];
    p[0..4].copy_from_slice(&src.octets());
    p[4..8].copy_from_slice(&dst.octets());
    p[9] = proto;
    p[10..12].copy_from_slice(&len.to_be_bytes());
    p
}

#[must_use]
pub fn pseudo_v6(src: Ipv6Addr, dst: Ipv6Addr, next: u8, len: u32) -> [u8; 40] {
    let mut p = [0u8; 40];
    p[0..16].copy_from_slice(&src.octets());
    p[16..32].copy_from_slice(&dst.octets());
    p[32..36].copy_from_slice(&len.to_be_bytes());
    p[39] = next;
    p
}

/// Does the transport segment (with its checksum field in place) verify against the
/// pseudo header?  (Sum over everything is 0xFFFF.)
#[must_use]
pub fn verifies(pseudo: &[u8], segment: &[u8]) -> bool {
    ones_sum(&[pseudo, segment]) == 0xffff
}

#[derive(Debug, Clone, Copy, PartialEq, Eq)]
pub struct Ipv4Hdr {
    pub ihl: u8,
    pub tos: u8,
    pub total_len: u16,
    pub id: u16,
    pub flags_frag: u16,
    pub ttl: u8,
    pub proto: u8,
    pub csum: u16,
    pub src: Ipv4Addr,
    pub dst: Ipv4Addr,
}

impl Ipv4Hdr {
    #[must_use]
    pub fn parse(b: &[u8]) -> Option<Self> {
        if b.len() < 20 || b[0] >> 4 != 4 {
            return None;
        }
        let ihl = b[0] & 0x0f;
        if ihl < 5 || b.len() < usize::from(ihl) * 4 {
            return None;
        }
        Some(Self {
            ihl,
            tos: b[1],
            total_len: u16::from_be_bytes([b[2], b[3]]),
            id: u16::from_be_bytes([b[4], b[5]]),
            flags_frag: u16::from_be_bytes([b[6], b[7]]),
            ttl: b[8],
            proto: b[9],
            csum: u16::from_be_bytes([b[10], b[11]]),
            src: Ipv4Addr::new(b[12], b[13], b[14], b[15]),
            dst: Ipv4Addr::new(b[16], b[17], b[18], b[19]),
        })
    }

    #[must_use]
    pub fn header_len(&self) -> usize {
        usize::from(self.ihl) * 4
    }

    #[must_use]
    pub fn df(&self) -> bool {
        self.flags_frag & 0x4000 != 0
    }

    /// 20-octet header (no options) with a valid header checksum.
    #[must_use]
    pub fn encode(&self) -> [u8; 20] {
        let mut h = [0u8; 20];
        h[0] = 0x45;
        h[1] = self.tos;
        h[2..4].copy_from_slice(&self.total_len.to_be_bytes());
        h[4..6].copy_from_slice(&self.id.to_be_bytes());
        h[6..8].copy_from_slice(&self.flags_frag.to_be_bytes());
        h[8] = self.ttl;
        h[9] = self.proto;
        h[12..16].copy_from_slice(&self.src.octets());
        h[16..20].copy_from_slice(&self.dst.octets());
        let c = inet_checksum(&[&h]);
        h[10..12].copy_from_slice(&c.to_be_bytes());
        h
    }
}

/// Recompute the IPv4 header checksum in place (header length from IHL).
pub fn fix_ipv4_checksum(b: &mut [u8]) {
    if b.len() < 20 {
        return;
    }
    let hl = (usize::from(b[0] & 0x0f) * 4).clamp(20, b.len());
    b[10] = 0;
    b[11] = 0;
    let c = inet_checksum(&[&b[..hl]]);
    b[10..12].copy_from_slice(&c.to_be_bytes());
}

#[derive(Debug, Clone, Copy, PartialEq, Eq)]
pub struct Ipv6Hdr {
    pub traffic_class: u8,
    pub flow_label: u32,
    pub payload_len: u16,
    pub next: u8,
    pub hop_limit: u8,
    pub src: Ipv6Addr,
    pub dst: Ipv6Addr,
}

impl Ipv6Hdr {
    #[must_use]
    pub fn parse(b: &[u8]) -> Option<Self> {
        if b.len() < 40 || b[0] >> 4 != 6 {
            return None;
        }
        let mut s = [0u8; 16];
        let mut d = [0u8; 16];
        s.copy_from_slice(&b[8..24]);
        d.copy_from_slice(&b[24..40]);
        Some(Self {
            traffic_class: (b[0] << 4) | (b[1] >> 4),
            flow_label: (u32::from(b[1] & 0x0f) << 16) | (u32::from(b[2]) << 8) | u32::from(b[3]),
            payload_len: u16::from_be_bytes([b[4], b[5]]),
            next: b[6],
            hop_limit: b[7],
            src: Ipv6Addr::from(s),
            dst: Ipv6Addr::from(d),
        })
    }

    #[must_use]
    pub fn encode(&self) -> [u8; 40] {
        let mut h = [0u8; 40];
        h[0] = 0x60 | (self.traffic_class >> 4);
        h[1] = (self.traffic_class << 4) | ((self.flow_label >> 16) as u8 & 0x0f);
        h[2] = (self.flow_label >> 8) as u8;
        h[3] = self.flow_label as u8;
        h[4..6].copy_from_slice(&self.payload_len.to_be_bytes());
        h[6] = self.next;
        h[7] = self.hop_limit;
        h[8..24].copy_from_slice(&self.src.octets());
        h[24..40].copy_from_slice(&self.dst.octets());
        h
    }
}

/// What kind of transport a probe uses.
#[derive(Debug, Clone, Copy, PartialEq, Eq, Hash)]
pub enum Transport {
    Icmp,
    Udp,
    Tcp,
}

/// A probe as decoded from the bytes (plus socket options) handed to the send socket.
#[derive(Debug, Clone, PartialEq, Eq)]
pub struct DecodedProbe {
    pub v6: bool,
    pub transport: Transport,
    pub src: IpAddr,
    pub dst: IpAddr,
    pub ttl: u8,
    pub tos: u8,
    pub df: bool,
    pub ip_id: u16,
    /// Total IP datagram length as claimed by the header (v4: total length; v6: 40 + payload length).
    pub ip_len_field: usize,
    /// Actual number of octets of the IP datagram on the wire.
    pub wire_len: usize,
    pub icmp_id: u16,
    pub icmp_seq: u16,
    pub icmp_type: u8,
    pub icmp_code: u8,
    pub sport: u16,
    pub dport: u16,
    pub udp_len: u16,
    pub l4_csum: u16,
    pub l4_csum_ok: bool,
    /// Offset of the transport payload (after ICMP echo header / UDP header) in `wire`.
    pub payload_off: usize,
    /// Offset of the transport header in `wire`.
    pub l4_off: usize,
}

/// Decode an IP datagram as it would appear on the wire.  Returns `Err(reason)` when it is
/// not a well-formed ICMP echo request / UDP datagram / TCP segment.
pub fn decode_probe(wire: &[u8]) -> Result<DecodedProbe, String> {
    if wire.is_empty() {
        return Err("empty datagram".into());
    }
    match wire[0] >> 4 {
        4 => decode_probe_v4(wire),
        6 => decode_probe_v6(wire),
        v => Err(format!("ip version {v}")),
    }
}

fn decode_probe_v4(wire: &[u8]) -> Result<DecodedProbe, String> {
    let ip = Ipv4Hdr::parse(wire).ok_or("short or malformed ipv4 header")?;
    let hl = ip.header_len();
    if ip.ihl != 5 {
        return Err(format!("unexpected ihl {}", ip.ihl));
    }
    let l4 = &wire[hl..];
    let mut d = DecodedProbe {
        v6: false,
        transport: Transport::Icmp,
        src: IpAddr::V4(ip.src),
        dst: IpAddr::V4(ip.dst),
        ttl: ip.ttl,
        tos: ip.tos,
        df: ip.df(),
        ip_id: ip.id,
        ip_len_field: usize::from(ip.total_len),
        wire_len: wire.len(),
        icmp_id: 0,
        icmp_seq: 0,
        icmp_type: 0,
        icmp_code: 0,
        sport: 0,
        dport: 0,
        udp_len: 0,
        l4_csum: 0,
        l4_csum_ok: false,
        payload_off: hl,
        l4_off: hl,
    };
    match ip.proto {
        PROTO_ICMP => {
            if l4.len() < 8 {
                return Err("short icmp".into());
            }
            d.transport = Transport::Icmp;
            d.icmp_type = l4[0];
            d.icmp_code = l4[1];
            d.l4_csum = u16::from_be_bytes([l4[2], l4[3]]);
            d.icmp_id = u16::from_be_bytes([l4[4], l4[5]]);
            d.icmp_seq = u16::from_be_bytes([l4[6], l4[7]]);
            d.l4_csum_ok = ones_sum(&[l4]) == 0xffff;
            d.payload_off = hl + 8;
        }
        PROTO_UDP => {
            if l4.len() < 8 {
                return Err("short udp".into());
            }
            d.transport = Transport::Udp;
            d.sport = u16::from_be_bytes([l4[0], l4[1]]);
            d.dport = u16::from_be_bytes([l4[2], l4[3]]);
            d.udp_len = u16::from_be_bytes([l4[4], l4[5]]);
            d.l4_csum = u16::from_be_bytes([l4[6], l4[7]]);
            let p = pseudo_v4(ip.src, ip.dst, PROTO_UDP, l4.len() as u16);
            d.l4_csum_ok = d.l4_csum == 0 || verifies(&p, l4);
            d.payload_off = hl + 8;
        }
        PROTO_TCP => {
            if l4.len() < 20 {
                return Err("short tcp".into());
            }
            d.transport = Transport::Tcp;
            d.sport = u16::from_be_bytes([l4[0], l4[1]]);
            d.dport = u16::from_be_bytes([l4[2], l4[3]]);
            d.l4_csum = u16::from_be_bytes([l4[16], l4[17]]);
            let p = pseudo_v4(ip.src, ip.dst, PROTO_TCP, l4.len() as u16);
            d.l4_csum_ok = verifies(&p, l4);
            d.payload_off = hl + usize::from(l4[12] >> 4) * 4;
        }
        p => return Err(format!("unexpected ip protocol {p}")),
    }
    Ok(d)
}

fn decode_probe_v6(wire: &[u8]) -> Result<DecodedProbe, String> {
    let ip = Ipv6Hdr::parse(wire).ok_or("short or malformed ipv6 header")?;
    let l4 = &wire[40..];
    let mut d = DecodedProbe {
        v6: true,
        transport: Transport::Icmp,
        src: IpAddr::V6(ip.src),
        dst: IpAddr::V6(ip.dst),
        ttl: ip.hop_limit,
        tos: ip.traffic_class,
        df: false,
        ip_id: 0,
        ip_len_field: 40 + usize::from(ip.payload_len),
        wire_len: wire.len(),
        icmp_id: 0,
        icmp_seq: 0,
        icmp_type: 0,
        icmp_code: 0,
        sport: 0,
        dport: 0,
        udp_len: 0,
        l4_csum: 0,
        l4_csum_ok: false,
        payload_off: 40,
        l4_off: 40,
    };
    match ip.next {
        PROTO_ICMPV6 => {
            if l4.len() < 8 {
                return Err("short icmpv6".into());
            }
            d.transport = Transport::Icmp;
            d.icmp_type = l4[0];
            d.icmp_code = l4[1];
            d.l4_csum = u16::from_be_bytes([l4[2], l4[3]]);
            d.icmp_id = u16::from_be_bytes([l4[4], l4[5]]);
            d.icmp_seq = u16::from_be_bytes([l4[6], l4[7]]);
            let p = pseudo_v6(ip.src, ip.dst, PROTO_ICMPV6, l4.len() as u32);
            d.l4_csum_ok = verifies(&p, l4);
            d.payload_off = 48;
        }
        PROTO_UDP => {
            if l4.len() < 8 {
                return Err("short udp".into());
            }
            d.transport = Transport::Udp;
            d.sport = u16::from_be_bytes([l4[0], l4[1]]);
            d.dport = u16::from_be_bytes([l4[2], l4[3]]);
            d.udp_len = u16::from_be_bytes([l4[4], l4[5]]);
            d.l4_csum = u16::from_be_bytes([l4[6], l4[7]]);
            let p = pseudo_v6(ip.src, ip.dst, PROTO_UDP, l4.len() as u32);
            d.l4_csum_ok = verifies(&p, l4);
            d.payload_off = 48;
        }
        PROTO_TCP => {
            if l4.len() < 20 {
                return Err("short tcp".into());
            }
            d.transport = Transport::Tcp;
            d.sport = u16::from_be_bytes([l4[0], l4[1]]);
            d.dport = u16::from_be_bytes([l4[2], l4[3]]);
            d.l4_csum = u16::from_be_bytes([l4[16], l4[17]]);
            let p = pseudo_v6(ip.src, ip.dst, PROTO_TCP, l4.len() as u32);
            d.l4_csum_ok = verifies(&p, l4);
            d.payload_off = 40 + usize::from(l4[12] >> 4) * 4;
        }
        p => return Err(format!("unexpected next header {p}")),
    }
    Ok(d)
}

/// Build a UDP segment with a valid checksum.
#[must_use]
pub fn build_udp(src: IpAddr, dst: IpAddr, sport: u16, dport: u16, payload: &[u8]) -> Vec<u8> {
    let len = 8 + payload.len();
    let mut u = Vec::with_capacity(len);
    u.extend_from_slice(&sport.to_be_bytes());
    u.extend_from_slice(&dport.to_be_bytes());
    u.extend_from_slice(&(len as u16).to_be_bytes());
    u.extend_from_slice(&[0, 0]);
    u.extend_from_slice(payload);
    let c = match (src, dst) {
        (IpAddr::V4(s), IpAddr::V4(d)) => inet_checksum(&[&pseudo_v4(s, d, PROTO_UDP, len as u16), &u]),
        (IpAddr::V6(s), IpAddr::V6(d)) => inet_checksum(&[&pseudo_v6(s, d, PROTO_UDP, len as u32), &u]),
        _ => 0,
    };
    let c = if c == 0 { 0xffff } else { c };
    u[6..8].copy_from_slice(&c.to_be_bytes());
    u
}

/// Build the TCP SYN a kernel would emit for a `connect` (40-octet header with options).
#[must_use]
pub fn build_tcp_syn(src: IpAddr, dst: IpAddr, sport: u16, dport: u16, isn: u32) -> Vec<u8> {
    let mut t = vec![0u8; 40];
    t[0..2].copy_from_slice(&sport.to_be_bytes());
    t[2..4].copy_from_slice(&dport.to_be_bytes());
    t[4..8].copy_from_slice(&isn.to_be_bytes());
    t[12] = 10 << 4;
    t[13] = 0x02;
    t[14..16].copy_from_slice(&64240u16.to_be_bytes());
    // options: MSS 1460, SACK permitted, timestamps, NOP, window scale 7
    t[20..24].copy_from_slice(&[2, 4, 0x05, 0xb4]);
    t[24..26].copy_from_slice(&[4, 2]);
    t[26..36].copy_from_slice(&[8, 10, 0x12, 0x34, 0x56, 0x78, 0, 0, 0, 0]);
    t[36] = 1;
    t[37..40].copy_from_slice(&[3, 3, 7]);
    let c = match (src, dst) {
        (IpAddr::V4(s), IpAddr::V4(d)) => inet_checksum(&[&pseudo_v4(s, d, PROTO_TCP, 40), &t]),
        (IpAddr::V6(s), IpAddr::V6(d)) => inet_checksum(&[&pseudo_v6(s, d, PROTO_TCP, 40), &t]),
        _ => 0,
    };
    t[16..18].copy_from_slice(&c.to_be_bytes());
    t
}

/// One ICMP multi-part extension object (RFC 4884 §8).
#[derive(Debug, Clone, PartialEq, Eq)]
pub struct ExtObject {
    pub class: u8,
    pub ctype: u8,
    pub payload: Vec<u8>,
}

/// One MPLS label stack entry (RFC 4950).
#[derive(Debug, Clone, Copy, PartialEq, Eq)]
pub struct MplsEntry {
    pub label: u32,
    pub exp: u8,
    pub bos: u8,
    pub ttl: u8,
}

impl MplsEntry {
    #[must_use]
    pub fn encode(&self) -> [u8; 4] {
        let v: u32 = ((self.label & 0x000f_ffff) << 12)
            | (u32::from(self.exp & 7) << 9)
            | (u32::from(self.bos & 1) << 8)
            | u32::from(self.ttl);
        v.to_be_bytes()
    }
}

/// An MPLS label stack object (class 1, c-type 1).
#[must_use]
pub fn mpls_object(entries: &[MplsEntry]) -> ExtObject {
    let mut payload = Vec::with_capacity(entries.len() * 4);
    for e in entries {
        payload.extend_from_slice(&e.encode());
    }
    ExtObject {
        class: 1,
        ctype: 1,
        payload,
    }
}

/// Encode an extension structure: header (version 2, checksum) followed by objects.
#[must_use]
pub fn build_extension(objects: &[ExtObject]) -> Vec<u8> {
    let mut e = vec![0x20, 0, 0, 0];
    for o in objects {
        let len = 4 + o.payload.len();
        e.extend_from_slice(&(len as u16).to_be_bytes());
        e.push(o.class);
        e.push(o.ctype);
        e.extend_from_slice(&o.payload);
    }
    let c = inet_checksum(&[&e]);
    e[2..4].copy_from_slice(&c.to_be_bytes());
    e
}

/// How a responder lays out the ICMP error body around the quoted datagram.
#[derive(Debug, Clone, PartialEq, Eq)]
pub enum ErrorLayout {
    /// Quotation only, length field zero.
    Plain,
    /// RFC 4884 compliant: quotation zero padded to a word (v4: 4 octets, min 128; v6: 8
    /// octets) boundary, length field set, extension appended.
    Compliant(Vec<ExtObject>),
    /// RFC 4884 compliant length field but no extension structure.
    CompliantNoExt,
    /// Legacy: length field zero, quotation padded/truncated to exactly 128 octets,
    /// extension appended.
    Legacy128(Vec<ExtObject>),
    /// As `Compliant`, but the length attribute gives the un-padded quotation (rounded up to
    /// a word) while the field itself is zero padded to 128 octets: seen from deployed
    /// routers and explicitly handled by parsers ("trim the original datagram to the
    /// RFC 4884 length"). Only used when the quotation is at most 128 octets.
    CompliantShortLength(Vec<ExtObject>),
}

/// Build the ICMP (v4) error message body: type, code, checksum, (length), quotation, extension.
#[must_use]
pub fn build_icmpv4_error(icmp_type: u8, code: u8, quoted: &[u8], layout: &ErrorLayout) -> Vec<u8> {
    let mut m = vec![icmp_type, code, 0, 0, 0, 0, 0, 0];
    match layout {
        ErrorLayout::Plain => m.extend_from_slice(quoted),
        ErrorLayout::Compliant(objs) => {
            let mut q = quoted.to_vec();
            let padded = q.len().max(128).div_ceil(4) * 4;
            q.resize(padded, 0);
            m[5] = (padded / 4) as u8;
            m.extend_from_slice(&q);
            m.extend_from_slice(&build_extension(objs));
        }
        ErrorLayout::CompliantNoExt => {
            let mut q = quoted.to_vec();
            let padded = q.len().max(128).div_ceil(4) * 4;
            q.resize(padded, 0);
            m[5] = (padded / 4) as u8;
            m.extend_from_slice(&q);
        }
        ErrorLayout::Legacy128(objs) => {
            let mut q = quoted.to_vec();
            q.resize(128, 0);
            m.extend_from_slice(&q);
            m.extend_from_slice(&build_extension(objs));
        }
        ErrorLayout::CompliantShortLength(objs) => {
            let mut q = quoted.to_vec();
            q.truncate(128);
            m[5] = q.len().div_ceil(4) as u8;
            q.resize(128, 0);
            m.extend_from_slice(&q);
            m.extend_from_slice(&build_extension(objs));
        }
    }
    let c = inet_checksum(&[&m]);
    m[2..4].copy_from_slice(&c.to_be_bytes());
    m
}

/// Build the ICMPv6 error message: type, code, checksum, (length), quotation, extension.
#[must_use]
pub fn build_icmpv6_error(
    src: Ipv6Addr,
    dst: Ipv6Addr,
    icmp_type: u8,
    code: u8,
    quoted: &[u8],
    layout: &ErrorLayout,
) -> Vec<u8> {
    let mut m = vec![icmp_type, code, 0, 0, 0, 0, 0, 0];
    match layout {
        ErrorLayout::Plain => m.extend_from_slice(quoted),
        ErrorLayout::Compliant(objs) => {
            let mut q = quoted.to_vec();
            let padded = q.len().max(128).div_ceil(8) * 8;
            q.resize(padded, 0);
            m[4] = (padded / 8) as u8;
            m.extend_from_slice(&q);
            m.extend_from_slice(&build_extension(objs));
        }
        ErrorLayout::CompliantNoExt => {
            let mut q = quoted.to_vec();
            let padded = q.len().max(128).div_ceil(8) * 8;
            q.resize(padded, 0);
            m[4] = (padded / 8) as u8;
            m.extend_from_slice(&q);
        }
        ErrorLayout::Legacy128(objs) => {
            let mut q = quoted.to_vec();
            q.resize(128, 0);
            m.extend_from_slice(&q);
            m.extend_from_slice(&build_extension(objs));
        }
        ErrorLayout::CompliantShortLength(objs) => {
            let mut q = quoted.to_vec();
            q.truncate(128);
            m[4] = q.len().div_ceil(8) as u8;
            q.resize(128, 0);
            m.extend_from_slice(&q);
            m.extend_from_slice(&build_extension(objs));
        }
    }
    let p = pseudo_v6(src, dst, PROTO_ICMPV6, m.len() as u32);
    let c = inet_checksum(&[&p, &m]);
    m[2..4].copy_from_slice(&c.to_be_bytes());
    m
}

/// ICMPv4 echo reply for an echo request (`req` = the ICMP message of the request).
#[must_use]
pub fn build_icmpv4_echo_reply(req: &[u8]) -> Vec<u8> {
    let mut m = req.to_vec();
    m[0] = 0;
    m[1] = 0;
    m[2] = 0;
    m[3] = 0;
    let c = inet_checksum(&[&m]);
    m[2..4].copy_from_slice(&c.to_be_bytes());
    m
}

/// ICMPv6 echo reply for an echo request.
#[must_use]
pub fn build_icmpv6_echo_reply(src: Ipv6Addr, dst: Ipv6Addr, req: &[u8]) -> Vec<u8> {
    let mut m = req.to_vec();
    m[0] = 129;
    m[1] = 0;
    m[2] = 0;
    m[3] = 0;
    let p = pseudo_v6(src, dst, PROTO_ICMPV6, m.len() as u32);
    let c = inet_checksum(&[&p, &m]);
    m[2..4].copy_from_slice(&c.to_be_bytes());
    m
}

/// Wrap an ICMP message into an IPv4 datagram from `src` to `dst`.
#[must_use]
pub fn wrap_ipv4(src: Ipv4Addr, dst: Ipv4Addr, proto: u8, ttl: u8, tos: u8, id: u16, payload: &[u8]) -> Vec<u8> {
    let h = Ipv4Hdr {
        ihl: 5,
        tos,
        total_len: (20 + payload.len()) as u16,
        id,
        flags_frag: 0,
        ttl,
        proto,
        csum: 0,
        src,
        dst,
    };
    let mut v = h.encode().to_vec();
    v.extend_from_slice(payload);
    v
}

#[cfg(test)]
mod tests {
    use super::*;

    #[test]
    fn checksum_rfc1071_example() {
        // RFC 1071 §3 example words: 0001 f203 f4f5 f6f7 -> sum ddf2, checksum 220d
        let data = [0x00, 0x01, 0xf2, 0x03, 0xf4, 0xf5, 0xf6, 0xf7];
        assert_eq!(ones_sum(&[&data]), 0xddf2);
        assert_eq!(inet_checksum(&[&data]), 0x220d);
    }

    #[test]
    fn ipv4_header_roundtrip_and_checksum() {
        let h = Ipv4Hdr {
            ihl: 5,
            tos: 0x10,
            total_len: 84,
            id: 0x1234,
            flags_frag: 0x4000,
            ttl: 7,
            proto: PROTO_UDP,
            csum: 0,
            src: Ipv4Addr::new(10, 0, 0, 1),
            dst: Ipv4Addr::new(10, 0, 0, 2),
        };
        let e = h.encode();
        assert_eq!(ones_sum(&[&e]), 0xffff);
        let p = Ipv4Hdr::parse(&e).unwrap();
        assert_eq!(p.ttl, 7);
        assert!(p.df());
        assert_eq!(p.dst, Ipv4Addr::new(10, 0, 0, 2));
    }

    #[test]
    fn udp_builds_and_verifies() {
        let s = IpAddr::V4(Ipv4Addr::new(1, 2, 3, 4));
        let d = IpAddr::V4(Ipv4Addr::new(5, 6, 7, 8));
        let u = build_udp(s, d, 1000, 2000, &[1, 2, 3]);
        let p = pseudo_v4(Ipv4Addr::new(1, 2, 3, 4), Ipv4Addr::new(5, 6, 7, 8), PROTO_UDP, u.len() as u16);
        assert!(verifies(&p, &u));
    }

    #[test]
    fn mpls_entry_layout() {
        // label 1048575, exp 7, S 1, ttl 255 -> ff ff ff ff
        let e = MplsEntry { label: 0xfffff, exp: 7, bos: 1, ttl: 255 };
        assert_eq!(e.encode(), [0xff, 0xff, 0xff, 0xff]);
        let e = MplsEntry { label: 16, exp: 0, bos: 1, ttl: 1 };
        assert_eq!(e.encode(), [0x00, 0x01, 0x01, 0x01]);
    }
}
