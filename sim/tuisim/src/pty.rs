//! The simulated keyboard: a pseudo-terminal installed as fd 0, written by the simulator
//! and read by the real crossterm input parser.

use std::os::fd::RawFd;

pub struct Pty {
    pub master: RawFd,
}

impl Pty {
    /// Open a pty, put the slave in raw mode and install it as stdin.
    pub fn install() -> Result<Self, String> {
        unsafe {
            let mut master: libc::c_int = 0;
            let mut slave: libc::c_int = 0;
            if libc::openpty(&mut master, &mut slave, std::ptr::null_mut(), std::ptr::null(), std::ptr::null()) != 0 {
                return Err("openpty failed".into());
            }
            let mut tio: libc::termios = std::mem::zeroed();
            if libc::tcgetattr(slave, &mut tio) != 0 {
                return Err("tcgetattr failed".into());
            }
            libc::cfmakeraw(&mut tio);
            if libc::tcsetattr(slave, libc::TCSANOW, &tio) != 0 {
                return Err("tcsetattr failed".into());
            }
            if libc::dup2(slave, 0) < 0 {
                return Err("dup2 failed".into());
            }
            if slave > 2 {
                libc::close(slave);
            }
            // the master must never block the simulator
            let fl = libc::fcntl(master, libc::F_GETFL);
            libc::fcntl(master, libc::F_SETFL, fl | libc::O_NONBLOCK);
            Ok(Self { master })
        }
    }

    pub fn write(&self, bytes: &[u8]) {
        unsafe {
            let mut off = 0;
            while off < bytes.len() {
                let n = libc::write(self.master, bytes[off..].as_ptr().cast(), bytes.len() - off);
                if n <= 0 {
                    break;
                }
                off += n as usize;
            }
        }
    }
}
