//! The simulated terminal: a ratatui backend whose size is scripted and whose `flush`
//! (called once per drawn frame by `Terminal::draw`) is the simulator's step hook.

use ratatui::backend::{Backend, TestBackend, WindowSize};
use ratatui::buffer::{Buffer, Cell};
use ratatui::layout::{Position, Size};
use std::cell::RefCell;
use std::io;
use std::rc::Rc;

/// What the hook asks the backend to do after a frame.
pub struct FrameAction {
    pub resize: Option<(u16, u16)>,
    /// Stop the event loop by failing the flush (the episode could not be ended by keys).
    pub abort: bool,
}

pub trait FrameHook {
    fn on_frame(&mut self, buffer: &Buffer, size: (u16, u16)) -> FrameAction;
}

pub struct SimBackend {
    inner: TestBackend,
    size: (u16, u16),
    hook: Rc<RefCell<dyn FrameHook>>,
}

impl SimBackend {
    pub fn new(width: u16, height: u16, hook: Rc<RefCell<dyn FrameHook>>) -> Self {
        Self {
            inner: TestBackend::new(width, height),
            size: (width, height),
            hook,
        }
    }
}

impl Backend for SimBackend {
    fn draw<'a, I>(&mut self, content: I) -> io::Result<()>
    where
        I: Iterator<Item = (u16, u16, &'a Cell)>,
    {
        // A terminal that prints a double-width glyph covers the cell to its right as well;
        // ratatui's diff does not mention that cell, and a backend that only stores what it is
        // told (the test backend underneath) would keep whatever an earlier frame left there
        // - a stale map pin, for instance.  Behave like the terminal.
        use unicode_width::UnicodeWidthStr;
        let width = self.size.0;
        let mut cells: Vec<(u16, u16, Cell)> = Vec::new();
        for (x, y, c) in content {
            cells.push((x, y, c.clone()));
            let w = c.symbol().width() as u16;
            for k in 1..w {
                if x + k < width {
                    let mut covered = c.clone();
                    covered.set_symbol(" ");
                    cells.push((x + k, y, covered));
                }
            }
        }
        self.inner.draw(cells.iter().map(|(x, y, c)| (*x, *y, c)))
    }

    fn hide_cursor(&mut self) -> io::Result<()> {
        self.inner.hide_cursor()
    }

    fn show_cursor(&mut self) -> io::Result<()> {
        self.inner.show_cursor()
    }

    fn get_cursor_position(&mut self) -> io::Result<Position> {
        self.inner.get_cursor_position()
    }

    fn set_cursor_position<P: Into<Position>>(&mut self, position: P) -> io::Result<()> {
        self.inner.set_cursor_position(position)
    }

    fn clear(&mut self) -> io::Result<()> {
        self.inner.clear()
    }

    fn size(&self) -> io::Result<Size> {
        Ok(Size::new(self.size.0, self.size.1))
    }

    fn window_size(&mut self) -> io::Result<WindowSize> {
        Ok(WindowSize {
            columns_rows: Size::new(self.size.0, self.size.1),
            pixels: Size::new(self.size.0.saturating_mul(8), self.size.1.saturating_mul(16)),
        })
    }

    fn flush(&mut self) -> io::Result<()> {
        self.inner.flush()?;
        let action = self.hook.borrow_mut().on_frame(self.inner.buffer(), self.size);
        if let Some((w, h)) = action.resize {
            self.size = (w, h);
            self.inner.resize(w, h);
        }
        if action.abort {
            return Err(io::Error::new(io::ErrorKind::Other, "episode aborted by the simulator"));
        }
        Ok(())
    }
}
