//! One episode: generated argv + configuration file -> real clap parse -> real
//! `TrippyConfig::from` -> tracers built by the real builder chain and run over the simulated
//! network -> the real `run_app` on a simulated terminal and keyboard.

use crate::backend::{FrameAction, FrameHook, SimBackend};
use crate::cfggen::{gen_config, GenConfig};
use crate::mmdb::GeoRecord;
use crate::pty::Pty;
use clap::Parser;
use crossterm::event::{KeyCode, KeyModifiers};
use ratatui::buffer::Buffer;
use ratatui::Terminal;
use serde_json::{json, Value};
use simcore::evidence::Counters;
use simcore::{Fnv, Tape};
use std::cell::RefCell;
use std::collections::BTreeMap;
use std::net::IpAddr;
use std::rc::Rc;
use tracersim::gen::{gen_scenario, Cell, Profile};
use tracersim::oracle::Violation;
use tracersim::run::{run_built, RunEnd, RunOpts};
use tracersim::scenario::{default_source, Ports, Proto, Scenario, Strat};
use trippy_core::{CompletionReason, MultipathStrategy, PortDirection, PrivilegeMode, ProbeStatus, Protocol, Round, State, TimeToLive, Tracer};
use trippy_dns::{AsInfo, DnsEntry, DnsResolver, Resolved, Unresolved};
use trippy_privilege::Privilege;
use trippy_tui::verif::{verif_make_builder, verif_make_tui_config, verif_run_app, Args, GeoIpLookup, Mode, TraceInfo, TrippyConfig, TuiApp};

pub struct Env {
    pub pty: Pty,
    pub workdir: String,
    pub geo_file: String,
    pub geo_records: Vec<GeoRecord>,
}

#[derive(Debug, Clone)]
pub struct OwnedRound {
    pub probes: Vec<ProbeStatus>,
    pub largest_ttl: u8,
    pub reason: CompletionReason,
}

pub struct Outcome {
    pub stage: &'static str,
    pub violations: Vec<Violation>,
    pub counters: Counters,
    pub frames: u64,
    pub abs_hash: u64,
    pub full_hash: u64,
    pub tape: Vec<u32>,
    pub sample: Value,
    pub nontrivial: bool,
}

/// Everything the harness knows about an address that must stay hidden.
#[derive(Debug, Clone, Default)]
pub struct AddrFacts {
    pub ip: String,
    pub hostname: String,
    pub asn: String,
    pub as_name: String,
    pub geo: Vec<String>,
}

/// The addresses a responder can have in the simulated networks, with unique tokens.
fn facts_for(addr: IpAddr, idx: usize, geo: Option<&GeoRecord>) -> AddrFacts {
    let tag = format!("{:04x}", 0x1a00 + idx * 7);
    AddrFacts {
        ip: addr.to_string(),
        hostname: format!("rtr{tag}.sim.example"),
        asn: format!("6{}", 4000 + idx * 13),
        as_name: format!("NETW{tag}"),
        geo: geo.map_or_else(Vec::new, |g| {
            vec![
                g.city.clone(),
                g.subdivision.clone(),
                g.country.clone(),
                g.continent.clone(),
                format!("{}, {}", g.latitude, g.longitude),
            ]
        }),
    }
}

/// The pool of addresses the simulated networks can use (both families), in a fixed order
/// so that the GeoIP database can be written once per worker.
#[must_use]
pub fn address_pool() -> Vec<IpAddr> {
    let mut v = Vec::new();
    for v6 in [false, true] {
        for variant in 0..2 {
            for branch in 0..5 {
                for hop in 1..=24 {
                    v.push(tracersim::scenario::router_addr(v6, hop, branch, variant));
                }
            }
        }
        for t in 1..=3u8 {
            v.push(target_addr(v6, t));
        }
        v.push(default_source(v6));
    }
    v
}

#[must_use]
pub fn target_addr(v6: bool, i: u8) -> IpAddr {
    if v6 {
        IpAddr::V6(std::net::Ipv6Addr::new(0x2001, 0xdb8, 0xffff, 0, 0, 0, 0, u16::from(i)))
    } else {
        IpAddr::V4(std::net::Ipv4Addr::new(203, 0, 113, i))
    }
}

#[must_use]
pub fn geo_records() -> Vec<GeoRecord> {
    address_pool()
        .into_iter()
        .enumerate()
        .filter(|(i, _)| i % 4 != 3) // some addresses have no GeoIP data
        .map(|(i, addr)| {
            let tag = format!("{:04x}", 0x3b00 + i * 5);
            GeoRecord {
                addr,
                city: format!("Cty{tag}ville"),
                subdivision: format!("Sub{tag}shire"),
                subdivision_code: format!("S{}", i % 90),
                country: format!("Lnd{tag}land"),
                country_code: "ZZ".to_string(),
                continent: format!("Cnt{tag}ia"),
                latitude: -60.0 + (i as f64) * 0.37,
                longitude: -170.0 + (i as f64) * 1.13,
                radius: 5 + (i as u16 % 400),
            }
        })
        .collect()
}

fn key_bytes(code: KeyCode, modifier: KeyModifiers) -> Option<Vec<u8>> {
    let ctrl = modifier.contains(KeyModifiers::CONTROL);
    let shift = modifier.contains(KeyModifiers::SHIFT);
    if modifier.intersects(KeyModifiers::ALT | KeyModifiers::SUPER | KeyModifiers::HYPER | KeyModifiers::META) {
        return None;
    }
    Some(match code {
        KeyCode::Char(c) if ctrl && c.is_ascii_alphabetic() => vec![(c.to_ascii_lowercase() as u8) & 0x1f],
        KeyCode::Char(c) if shift && c.is_ascii_alphabetic() => vec![c.to_ascii_uppercase() as u8],
        KeyCode::Char(c) if !ctrl && !shift && c.is_ascii() => vec![c as u8],
        KeyCode::Up if modifier.is_empty() => b"\x1b[A".to_vec(),
        KeyCode::Down if modifier.is_empty() => b"\x1b[B".to_vec(),
        KeyCode::Right if modifier.is_empty() => b"\x1b[C".to_vec(),
        KeyCode::Left if modifier.is_empty() => b"\x1b[D".to_vec(),
        KeyCode::Esc if modifier.is_empty() => vec![0x1b],
        KeyCode::Enter if modifier.is_empty() => vec![b'\r'],
        KeyCode::Tab if modifier.is_empty() => vec![b'\t'],
        KeyCode::PageDown if modifier.is_empty() => b"\x1b[6~".to_vec(),
        KeyCode::PageUp if modifier.is_empty() => b"\x1b[5~".to_vec(),
        KeyCode::Home if modifier.is_empty() => b"\x1b[H".to_vec(),
        KeyCode::End if modifier.is_empty() => b"\x1b[F".to_vec(),
        _ => return None,
    })
}

/// The commands of the key-binding table the simulator presses.
#[derive(Debug, Clone, Copy, PartialEq, Eq, Hash, PartialOrd, Ord)]
pub enum Cmd {
    ToggleHelp,
    ToggleSettings,
    SettingsTab(u8),
    NextHop,
    PreviousHop,
    NextTrace,
    PreviousTrace,
    NextHopAddress,
    PreviousHopAddress,
    AddressModeIp,
    AddressModeHost,
    AddressModeBoth,
    ToggleFreeze,
    ToggleChart,
    ToggleMap,
    ToggleFlows,
    ExpandPrivacy,
    ContractPrivacy,
    ExpandHosts,
    ContractHosts,
    ExpandHostsMax,
    ContractHostsMin,
    ZoomIn,
    ZoomOut,
    ClearTraceData,
    ClearDnsCache,
    ClearSelection,
    ToggleAsInfo,
    ToggleHopDetails,
    Idle,
    Quit,
}

struct Keymap {
    keys: Vec<(Cmd, Vec<u8>)>,
}

impl Keymap {
    fn from_config(cfg: &TrippyConfig) -> Self {
        let b = &cfg.tui_bindings;
        let mut keys = Vec::new();
        let mut add = |cmd: Cmd, code: KeyCode, m: KeyModifiers| {
            if let Some(bytes) = key_bytes(code, m) {
                keys.push((cmd, bytes));
            }
        };
        add(Cmd::ToggleHelp, b.toggle_help.code, b.toggle_help.modifier);
        add(Cmd::ToggleSettings, b.toggle_settings.code, b.toggle_settings.modifier);
        add(Cmd::SettingsTab(0), b.toggle_settings_tui.code, b.toggle_settings_tui.modifier);
        add(Cmd::SettingsTab(1), b.toggle_settings_trace.code, b.toggle_settings_trace.modifier);
        add(Cmd::SettingsTab(2), b.toggle_settings_dns.code, b.toggle_settings_dns.modifier);
        add(Cmd::SettingsTab(3), b.toggle_settings_geoip.code, b.toggle_settings_geoip.modifier);
        add(Cmd::SettingsTab(4), b.toggle_settings_bindings.code, b.toggle_settings_bindings.modifier);
        add(Cmd::SettingsTab(5), b.toggle_settings_theme.code, b.toggle_settings_theme.modifier);
        add(Cmd::SettingsTab(6), b.toggle_settings_columns.code, b.toggle_settings_columns.modifier);
        add(Cmd::NextHop, b.next_hop.code, b.next_hop.modifier);
        add(Cmd::PreviousHop, b.previous_hop.code, b.previous_hop.modifier);
        add(Cmd::NextTrace, b.next_trace.code, b.next_trace.modifier);
        add(Cmd::PreviousTrace, b.previous_trace.code, b.previous_trace.modifier);
        add(Cmd::NextHopAddress, b.next_hop_address.code, b.next_hop_address.modifier);
        add(Cmd::PreviousHopAddress, b.previous_hop_address.code, b.previous_hop_address.modifier);
        add(Cmd::AddressModeIp, b.address_mode_ip.code, b.address_mode_ip.modifier);
        add(Cmd::AddressModeHost, b.address_mode_host.code, b.address_mode_host.modifier);
        add(Cmd::AddressModeBoth, b.address_mode_both.code, b.address_mode_both.modifier);
        add(Cmd::ToggleFreeze, b.toggle_freeze.code, b.toggle_freeze.modifier);
        add(Cmd::ToggleChart, b.toggle_chart.code, b.toggle_chart.modifier);
        add(Cmd::ToggleMap, b.toggle_map.code, b.toggle_map.modifier);
        add(Cmd::ToggleFlows, b.toggle_flows.code, b.toggle_flows.modifier);
        add(Cmd::ExpandPrivacy, b.expand_privacy.code, b.expand_privacy.modifier);
        add(Cmd::ContractPrivacy, b.contract_privacy.code, b.contract_privacy.modifier);
        add(Cmd::ExpandHosts, b.expand_hosts.code, b.expand_hosts.modifier);
        add(Cmd::ContractHosts, b.contract_hosts.code, b.contract_hosts.modifier);
        add(Cmd::ExpandHostsMax, b.expand_hosts_max.code, b.expand_hosts_max.modifier);
        add(Cmd::ContractHostsMin, b.contract_hosts_min.code, b.contract_hosts_min.modifier);
        add(Cmd::ZoomIn, b.chart_zoom_in.code, b.chart_zoom_in.modifier);
        add(Cmd::ZoomOut, b.chart_zoom_out.code, b.chart_zoom_out.modifier);
        add(Cmd::ClearTraceData, b.clear_trace_data.code, b.clear_trace_data.modifier);
        add(Cmd::ClearDnsCache, b.clear_dns_cache.code, b.clear_dns_cache.modifier);
        add(Cmd::ClearSelection, b.clear_selection.code, b.clear_selection.modifier);
        add(Cmd::ToggleAsInfo, b.toggle_as_info.code, b.toggle_as_info.modifier);
        add(Cmd::ToggleHopDetails, b.toggle_hop_details.code, b.toggle_hop_details.modifier);
        add(Cmd::Quit, b.quit.code, b.quit.modifier);
        keys.push((Cmd::Idle, vec![b'~']));
        Self { keys }
    }

    fn bytes(&self, cmd: Cmd) -> Option<&[u8]> {
        self.keys.iter().find(|(c, _)| *c == cmd).map(|(_, b)| b.as_slice())
    }
}

/// What the harness remembers from the previous frame to judge the effect of the key it sent.
#[derive(Debug, Clone, Copy)]
struct Prev {
    privacy: Option<u8>,
    hop_count: usize,
    overlay: bool,
    cmd: Cmd,
}

struct TracerFeed {
    tracer: Tracer,
    pending: Vec<OwnedRound>,
    next: usize,
}

struct EpisodeState {
    tape: Tape,
    app: *const TuiApp,
    master: i32,
    keymap: Keymap,
    feeds: Vec<TracerFeed>,
    resolver: DnsResolver,
    facts: BTreeMap<IpAddr, AddrFacts>,
    /// Every address the GeoIP database has coordinates for (used in this episode or not).
    geo_addrs: std::collections::BTreeSet<IpAddr>,
    targets: Vec<IpAddr>,
    source_ips: Vec<String>,
    frames_left: u32,
    quitting: u32,
    prev: Option<Prev>,
    violations: Vec<Violation>,
    counters: Counters,
    frames: u64,
    abs: Fnv,
    full: Fnv,
    pending_dns: Vec<(IpAddr, bool)>,
    sizes_seen: BTreeMap<&'static str, u64>,
    check_c18: bool,
    /// What this episode's user mostly does (swarm style): 0 anything, 1 flows, 2 freeze /
    /// clear while data keeps changing, 3 hop details and addresses, 4 dialogs.
    focus: u8,
}

fn row_text(buf: &Buffer, y: u16) -> String {
    let mut s = String::with_capacity(usize::from(buf.area.width));
    for x in 0..buf.area.width {
        s.push_str(buf[(x, y)].symbol());
    }
    s
}

/// Does `row` contain `needle` as a whole token (not as part of a longer address or word)?
fn contains_token(row: &str, needle: &str) -> bool {
    if needle.is_empty() {
        return false;
    }
    let bytes = row.as_bytes();
    let mut start = 0;
    while let Some(pos) = row[start..].find(needle) {
        let i = start + pos;
        let j = i + needle.len();
        let before_ok = i == 0 || {
            let c = bytes[i - 1];
            !(c.is_ascii_alphanumeric() || c == b'.' || c == b':')
        };
        let after_ok = j >= bytes.len() || {
            let c = bytes[j];
            if c == b'.' {
                j + 1 >= bytes.len() || !bytes[j + 1].is_ascii_alphanumeric()
            } else {
                !(c.is_ascii_alphanumeric() || c == b':')
            }
        };
        if before_ok && after_ok {
            return true;
        }
        start = i + 1;
        if start >= row.len() {
            break;
        }
    }
    false
}

fn size_class(w: u16, h: u16) -> &'static str {
    if w < 12 || h < 6 {
        "tiny"
    } else if w < 70 || h < 20 {
        "small"
    } else if w <= 140 {
        "normal"
    } else {
        "wide"
    }
}

impl EpisodeState {
    fn violation(&mut self, prop: &'static str, sig: String, detail: String) {
        if self.violations.len() < 6 && !self.violations.iter().any(|v| v.sig == sig) {
            self.violations.push(Violation::new(prop, sig, detail));
        }
    }

    fn check_selection(&mut self, app: &TuiApp) -> Option<usize> {
        // selected flow refers to a flow that exists in the data being displayed
        let flow = app.selected_flow;
        let flow_ok = flow == State::default_flow_id() || app.selected_tracer_data.flows().iter().any(|(_, id)| *id == flow);
        if !flow_ok {
            self.violation("C17", "c17.selected-flow-missing".into(), format!("frame {}: selected flow {} does not exist in the displayed data ({} flows)", self.frames, flow.0, app.selected_tracer_data.flows().len()));
            return None;
        }
        // settings tab and settings item exist
        if app.settings_tab_selected >= 7 {
            self.violation("C17", "c17.settings-tab-out-of-range".into(), format!("frame {}: settings tab {} selected", self.frames, app.settings_tab_selected));
        } else if app.show_settings {
            let count = app.verif_settings_items_count();
            if let Some(i) = app.setting_table_state.selected() {
                if i >= count.max(1) {
                    self.violation(
                        "C17",
                        "c17.settings-item-out-of-range".into(),
                        format!("frame {}: settings tab {} has {count} items but item {i} is selected", self.frames, app.settings_tab_selected),
                    );
                }
            }
        }
        let hops = app.selected_tracer_data.hops_for_flow(flow);
        if let Some(sel) = app.table_state.selected() {
            if sel >= hops.len() {
                self.violation("C17", "c17.selected-hop-out-of-range".into(), format!("frame {}: selected hop index {sel} but the displayed flow has {} hops", self.frames, hops.len()));
            } else {
                let n = hops[sel].addr_count();
                if (n == 0 && app.selected_hop_address != 0) || (n > 0 && app.selected_hop_address >= n) {
                    self.violation("C17", "c17.hop-address-out-of-range".into(), format!("frame {}: selected hop address {} but the selected hop has {n} addresses", self.frames, app.selected_hop_address));
                }
            }
        }
        if app.trace_selected >= app.trace_info.len() {
            self.violation("C17", "c17.selected-trace-out-of-range".into(), format!("frame {}: selected trace {} of {}", self.frames, app.trace_selected, app.trace_info.len()));
        }
        if app.settings_tab_selected > 6 {
            self.violation("C17", "c17.settings-tab-out-of-range".into(), format!("frame {}: settings tab {}", self.frames, app.settings_tab_selected));
        }
        Some(hops.len())
    }

    fn check_privacy(&mut self, app: &TuiApp, rows: &[String]) {
        let Some(n) = app.tui_config.privacy_max_ttl else { return };
        let hops = app.selected_tracer_data.hops_for_flow(app.selected_flow);
        // strings that may legitimately be on screen: responders above n, the targets
        let mut visible: Vec<String> = Vec::new();
        for t in &self.targets {
            if let Some(f) = self.facts.get(t) {
                visible.push(f.ip.clone());
                visible.push(f.hostname.clone());
                visible.push(f.as_name.clone());
                visible.extend(f.geo.iter().cloned());
            } else {
                visible.push(t.to_string());
            }
        }
        for h in hops {
            if h.ttl() > n {
                for a in h.addrs() {
                    if let Some(f) = self.facts.get(a) {
                        visible.push(f.ip.clone());
                        visible.push(f.hostname.clone());
                        visible.push(f.as_name.clone());
                        visible.extend(f.geo.iter().cloned());
                    }
                }
            }
        }
        let mut leaks: Vec<(u8, String, String)> = Vec::new();
        for h in hops {
            if h.ttl() == 0 || h.ttl() > n {
                continue;
            }
            for a in h.addrs() {
                let Some(f) = self.facts.get(a).cloned() else { continue };
                let mut secrets = vec![("address", f.ip.clone()), ("hostname", f.hostname.clone()), ("as-name", f.as_name.clone())];
                for g in &f.geo {
                    secrets.push(("geoip", g.clone()));
                }
                for (kind, s) in secrets {
                    // a visible string that merely contains the hidden one (10.0.0.10 cut to
                    // 10.0.0.1 by a narrow column) is not a leak
                    if s.len() < 6 || visible.iter().any(|v| v.contains(&s)) {
                        continue;
                    }
                    if rows.iter().any(|r| contains_token(r, &s)) {
                        leaks.push((h.ttl(), kind.to_string(), s));
                    }
                }
            }
        }
        for (ttl, kind, s) in leaks {
            let view = view_name(app);
            self.violation(
                "C18",
                format!("c18.leak.{kind}.{view}"),
                format!("frame {}: privacy ttl {n} is in force but the {kind} \"{s}\" of the hop with ttl {ttl} is on the screen ({view} view)", self.frames),
            );
        }
        // "hops above n are shown normally": the hop table writes the hidden marker once per
        // responding hop with ttl <= n (and the header once, for the source address); rows
        // out of view or cut short only take markers away
        if !app.show_help && !app.show_settings && !app.show_map && !app.show_chart && !app.show_flows {
            let markers: usize = rows.iter().map(|r| r.matches("**Hidden**").count()).sum();
            let hidden = hops.iter().filter(|h| h.ttl() > 0 && h.ttl() <= n && h.total_recv() > 0).count();
            if markers > hidden + 1 {
                let view = view_name(app);
                self.violation(
                    "C18",
                    format!("c18.over-hidden.{view}"),
                    format!("frame {}: privacy ttl {n} hides {hidden} responding hop(s), but the frame carries {markers} hidden markers (one belongs to the source address): a hop above n is not shown", self.frames),
                );
            }
        }
        // the map marks a location only for hops that may be shown: every located address
        // has coordinates of its own, so there are at most as many pins on the frame as
        // there are located addresses among the hops above n (dialogs and pins that share
        // a cell only take pins away)
        if app.show_map {
            let pins: usize = rows.iter().map(|r| r.matches('\u{1F4CD}').count()).sum();
            let mut located: Vec<&IpAddr> = hops
                .iter()
                .filter(|h| h.ttl() > n)
                .flat_map(|h| h.addrs())
                .filter(|a| self.geo_addrs.contains(*a))
                .collect();
            located.sort();
            located.dedup();
            self.counters.add("reach.c18.map-frame-under-privacy", 1);
            if pins > 0 {
                self.counters.add("reach.c18.map-pins-under-privacy", 1);
            }
            if pins > located.len() {
                let view = view_name(app);
                self.violation(
                    "C18",
                    format!("c18.leak.geoip-pin.{view}"),
                    format!("frame {}: privacy ttl {n} is in force, {} located address(es) belong to hops above it, but the map shows {pins} location pin(s)", self.frames, located.len()),
                );
            }
        }
        for s in self.source_ips.clone() {
            if !visible.iter().any(|v| v.contains(&s)) && rows.iter().any(|r| contains_token(r, &s)) {
                let view = view_name(app);
                self.violation("C18", format!("c18.leak.source.{view}"), format!("frame {}: privacy ttl {n} is in force but the source address {s} is on the screen", self.frames));
            }
        }
    }

    fn check_step(&mut self, app: &TuiApp) {
        let Some(prev) = self.prev else { return };
        let now = app.tui_config.privacy_max_ttl;
        let expect = if prev.overlay {
            prev.privacy
        } else {
            match prev.cmd {
                Cmd::ExpandPrivacy => match prev.privacy {
                    None => Some(0),
                    Some(k) if usize::from(k) < prev.hop_count => Some(k + 1),
                    Some(k) => Some(k),
                },
                Cmd::ContractPrivacy => match prev.privacy {
                    None => None,
                    Some(0) => None,
                    Some(k) => Some(k - 1),
                },
                _ => prev.privacy,
            }
        };
        if now != expect {
            self.violation(
                "C18",
                format!("c18.step.{:?}", prev.cmd),
                format!("frame {}: privacy was {:?} with {} hops, command {:?} was pressed, privacy became {now:?} (expected {expect:?})", self.frames, prev.privacy, prev.hop_count, prev.cmd),
            );
        }
    }

    fn world_step(&mut self) {
        // new rounds arrive between a command and the next frame
        for _ in 0..self.tape.weighted(&[50, 35, 10, 5]) {
            let n = self.feeds.len();
            if n == 0 {
                break;
            }
            let i = self.tape.pick(n);
            let f = &mut self.feeds[i];
            if f.next < f.pending.len() {
                let r = &f.pending[f.next];
                f.tracer.verif_apply_round(&Round::new(&r.probes, TimeToLive(r.largest_ttl), r.reason));
                f.next += 1;
                self.counters.add("world.round_applied", 1);
                self.abs.u8(1);
            } else if self.tape.chance(100) {
                // the feed starts over: the trace keeps running
                f.next = 0;
            }
        }
        if self.tape.chance(8) {
            let n = self.feeds.len();
            let i = self.tape.pick(n.max(1));
            if let Some(f) = self.feeds.get(i) {
                let _ = f.tracer.verif_set_error(trippy_core::Error::Other("simulated failure of the tracer thread".into()));
                self.counters.add("world.tracer_error", 1);
                self.abs.u8(2);
            }
        }
        // reverse DNS completions
        self.pending_dns.extend(self.resolver.verif_take_requests());
        let mut still = Vec::new();
        for (addr, with_as) in std::mem::take(&mut self.pending_dns) {
            if !self.tape.chance(500) {
                still.push((addr, with_as));
                continue;
            }
            let f = self.facts.get(&addr).cloned();
            let asinfo = f.as_ref().map(|f| AsInfo {
                asn: f.asn.clone(),
                prefix: "198.51.100.0/24".into(),
                cc: "ZZ".into(),
                registry: "simnic".into(),
                allocated: "2001-01-01".into(),
                name: f.as_name.clone(),
            });
            let entry = match self.tape.weighted(&[70, 15, 5, 10]) {
                0 => match (f.as_ref(), with_as, asinfo.clone()) {
                    (Some(f), true, Some(a)) => DnsEntry::Resolved(Resolved::WithAsInfo(addr, vec![f.hostname.clone()], a)),
                    (Some(f), _, _) => DnsEntry::Resolved(Resolved::Normal(addr, vec![f.hostname.clone()])),
                    _ => DnsEntry::NotFound(Unresolved::Normal(addr)),
                },
                1 => match (with_as, asinfo) {
                    (true, Some(a)) => DnsEntry::NotFound(Unresolved::WithAsInfo(addr, a)),
                    _ => DnsEntry::NotFound(Unresolved::Normal(addr)),
                },
                2 => DnsEntry::Failed(addr),
                _ => DnsEntry::Timeout(addr),
            };
            self.resolver.verif_insert(addr, entry);
            self.counters.add("world.dns_completed", 1);
        }
        self.pending_dns = still;
    }

    /// The command of this frame: overlays are left again soon (most keys do nothing in
    /// them), the episode's focus boosts the commands of one area, the rest is the pool.
    fn choose_cmd_for(&mut self, app: &TuiApp) -> Cmd {
        if (app.show_help || app.show_settings) && self.focus != 4 && self.tape.chance(300) {
            return if app.show_help { Cmd::ToggleHelp } else { [Cmd::ToggleSettings, Cmd::ClearSelection][self.tape.pick(2)] };
        }
        if self.focus == 4 && self.tape.chance(700) {
            // the settings dialog: walk its tabs and items to their ends, edit the column list
            if !app.show_settings {
                return [
                    Cmd::SettingsTab(6),
                    Cmd::SettingsTab(6),
                    Cmd::ToggleSettings,
                    Cmd::SettingsTab(0),
                    Cmd::SettingsTab(1),
                    Cmd::SettingsTab(2),
                    Cmd::SettingsTab(3),
                    Cmd::SettingsTab(4),
                    Cmd::SettingsTab(5),
                ][self.tape.pick(9)];
            }
            // mostly down, so that the last items of a long list are reached; the column
            // list is edited (move up / down, toggle) wherever the cursor is
            return match self.tape.weighted(&[62, 12, 8, 8, 4, 2, 2, 2]) {
                0 => Cmd::NextHop,
                1 => Cmd::NextHopAddress,
                2 => Cmd::PreviousHopAddress,
                3 => Cmd::ToggleChart,
                4 => Cmd::PreviousHop,
                5 => Cmd::NextTrace,
                6 => Cmd::PreviousTrace,
                _ => Cmd::SettingsTab([6u8, 6, 0, 1, 2, 3, 4, 5][self.tape.pick(8)]),
            };
        }
        let boosted: &[Cmd] = match self.focus {
            1 => &[
                Cmd::ToggleFlows,
                Cmd::NextTrace,
                Cmd::PreviousTrace,
                Cmd::NextHop,
                Cmd::PreviousHop,
                Cmd::ToggleFreeze,
                Cmd::NextHopAddress,
                Cmd::ClearTraceData,
                Cmd::NextTrace,
                Cmd::NextHop,
                Cmd::ExpandPrivacy,
                Cmd::ExpandPrivacy,
                Cmd::ExpandPrivacy,
                Cmd::ContractPrivacy,
            ],
            2 => &[
                Cmd::ToggleFreeze,
                Cmd::ClearTraceData,
                Cmd::NextHop,
                Cmd::PreviousHop,
                Cmd::NextHopAddress,
                Cmd::ToggleHopDetails,
                Cmd::ToggleFreeze,
                Cmd::ExpandPrivacy,
                Cmd::ClearTraceData,
                Cmd::ExpandHostsMax,
                Cmd::ExpandHosts,
                Cmd::ContractHosts,
            ],
            3 => &[Cmd::ToggleHopDetails, Cmd::NextHopAddress, Cmd::PreviousHopAddress, Cmd::NextHop, Cmd::PreviousHop, Cmd::NextHopAddress, Cmd::ExpandHosts, Cmd::ToggleFreeze],
            _ => &[],
        };
        if !boosted.is_empty() && self.tape.chance(450) {
            // in flows focus, enter flows mode first
            if self.focus == 1 && !app.show_flows && self.tape.chance(500) {
                return Cmd::ToggleFlows;
            }
            return boosted[self.tape.pick(boosted.len())];
        }
        self.choose_cmd()
    }

    fn choose_cmd(&mut self) -> Cmd {
        const POOL: &[(Cmd, u32)] = &[
            (Cmd::NextHop, 14),
            (Cmd::PreviousHop, 8),
            (Cmd::NextTrace, 5),
            (Cmd::PreviousTrace, 4),
            (Cmd::NextHopAddress, 5),
            (Cmd::PreviousHopAddress, 3),
            (Cmd::ToggleHopDetails, 6),
            (Cmd::ToggleFlows, 6),
            (Cmd::ToggleChart, 4),
            (Cmd::ToggleMap, 5),
            (Cmd::ToggleHelp, 3),
            (Cmd::ToggleSettings, 3),
            (Cmd::SettingsTab(0), 1),
            (Cmd::SettingsTab(3), 1),
            (Cmd::SettingsTab(6), 2),
            (Cmd::SettingsTab(1), 1),
            (Cmd::SettingsTab(2), 1),
            (Cmd::SettingsTab(4), 1),
            (Cmd::SettingsTab(5), 1),
            (Cmd::ExpandPrivacy, 9),
            (Cmd::ContractPrivacy, 5),
            (Cmd::ExpandHosts, 3),
            (Cmd::ContractHosts, 2),
            (Cmd::ExpandHostsMax, 2),
            (Cmd::ContractHostsMin, 2),
            (Cmd::AddressModeIp, 2),
            (Cmd::AddressModeHost, 2),
            (Cmd::AddressModeBoth, 3),
            (Cmd::ToggleAsInfo, 3),
            (Cmd::ToggleFreeze, 3),
            (Cmd::ClearTraceData, 3),
            (Cmd::ClearDnsCache, 1),
            (Cmd::ClearSelection, 3),
            (Cmd::ZoomIn, 1),
            (Cmd::ZoomOut, 1),
            (Cmd::Idle, 10),
        ];
        let weights: Vec<u32> = POOL.iter().map(|(_, w)| *w).collect();
        // index 0 of a weighted draw is the simplest choice: make that the idle key
        let i = self.tape.weighted(&weights);
        if i == 0 {
            Cmd::Idle
        } else if POOL[i].0 == Cmd::Idle {
            Cmd::NextHop
        } else {
            POOL[i].0
        }
    }
}

fn view_name(app: &TuiApp) -> &'static str {
    if app.show_help {
        "help"
    } else if app.show_settings {
        "settings"
    } else if app.show_map {
        "map"
    } else if app.show_chart {
        "chart"
    } else if app.show_flows {
        "flows"
    } else if app.show_hop_details {
        "details"
    } else {
        "table"
    }
}

impl FrameHook for EpisodeState {
    fn on_frame(&mut self, buffer: &Buffer, size: (u16, u16)) -> FrameAction {
        self.frames += 1;
        // SAFETY: the pointer targets the `TuiApp` owned by `run_episode`, which outlives the
        // terminal; the event loop is between two statements while the backend flushes, and
        // only plain fields are read.
        let app: &TuiApp = unsafe { &*self.app };
        let rows: Vec<String> = (0..buffer.area.height).map(|y| row_text(buffer, y)).collect();
        *self.sizes_seen.entry(size_class(size.0, size.1)).or_insert(0) += 1;
        self.counters.add(&format!("frames.view.{}", view_name(app)), 1);
        if app.frozen_start.is_some() {
            self.counters.add("reach.frozen_frame", 1);
            if app.show_flows && app.table_state.selected().is_some() {
                self.counters.add("reach.frozen_flows_selected", 1);
            }
        }
        if app.show_flows {
            self.counters.add("reach.flows_mode_frame", 1);
            let lens: std::collections::BTreeSet<usize> = app.selected_tracer_data.flows().iter().map(|(_, id)| app.selected_tracer_data.hops_for_flow(*id).len()).collect();
            if lens.len() > 1 {
                self.counters.add("reach.flows_of_unequal_length", 1);
            }
        }
        if app.selected_hop_address > 0 {
            self.counters.add("reach.second_address_selected", 1);
        }
        if app.show_settings {
            self.counters.add(&format!("frames.settings_tab.{}", app.settings_tab_selected), 1);
            // far down the tab's list
            if app.setting_table_state.selected().is_some_and(|i| i >= 8) {
                self.counters.add(&format!("reach.settings_tab_{}_item_8_or_beyond", app.settings_tab_selected), 1);
            }
        }
        if app.show_settings && app.settings_tab_selected == 6 {
            self.counters.add("reach.columns_tab_frame", 1);
            if app.setting_table_state.selected().is_some_and(|i| i >= 25) {
                self.counters.add("reach.columns_tab_last_items", 1);
            }
        }
        let before = self.violations.len();
        let hop_count = self.check_selection(app);
        if self.check_c18 {
            self.check_privacy(app, &rows);
        }
        self.check_step(app);
        if self.violations.len() > before && std::env::var_os("TUISIM_DUMP_FRAME").is_some() {
            eprintln!("--- frame {} ({}x{}, view {}, privacy {:?}, selected {:?}, flow {}, frozen {}) ---", self.frames, size.0, size.1, view_name(app), app.tui_config.privacy_max_ttl, app.table_state.selected(), app.selected_flow.0, app.frozen_start.is_some());
            for r in &rows {
                eprintln!("|{}|", r.trim_end());
            }
            for h in app.selected_tracer_data.hops_for_flow(app.selected_flow) {
                eprintln!("hop ttl {} addrs {:?}", h.ttl(), h.addrs().collect::<Vec<_>>());
            }
        }
        if app.tui_config.privacy_max_ttl.is_some() {
            self.counters.add("frames.with_privacy", 1);
        }
        // hashes: abstract = (view, selection class); full = every cell
        self.abs.bytes(view_name(app).as_bytes());
        self.abs.u8(u8::from(app.table_state.selected().is_some()));
        self.abs.u8(app.tui_config.privacy_max_ttl.map_or(255, |x| x.min(250)));
        // the map view draws its pins in the iteration order of a std HashMap (world.rs
        // groups hops by location), which differs from instance to instance: overlapping
        // labels may swap.  No property depends on it, so map frames stay out of the exact
        // frame hash (they are still checked by every oracle above).
        if !app.show_map {
            for r in &rows {
                self.full.bytes(r.as_bytes());
            }
        }
        // what happens in the world between this frame and the next
        tracersim::clock::advance_by(u64::from(1 + self.tape.skewed(2000)) * 1_000_000);
        self.world_step();
        let mut action = FrameAction { resize: None, abort: self.quitting > 12 };
        if self.frames % 25 == 1 && std::env::var_os("TUISIM_WORKER").is_some() {
            // heartbeat for the parent's watchdog: where the episode is
            eprintln!("hb frame={} size={}x{} view={}", self.frames, size.0, size.1, view_name(app));
        }
        if self.tape.chance(60) {
            let (w, h) = match self.tape.weighted(&[40, 20, 20, 20]) {
                0 => [(80u16, 24u16), (120, 40), (100, 30)][self.tape.pick(3)],
                1 => (1 + self.tape.draw(12) as u16, 1 + self.tape.draw(6) as u16),
                2 => (20 + self.tape.draw(50) as u16, 6 + self.tape.draw(16) as u16),
                _ => (150 + self.tape.draw(151) as u16, 40 + self.tape.draw(61) as u16),
            };
            action.resize = Some((w, h));
            self.counters.add("world.resize", 1);
        }
        // exactly one key per frame, so that the event loop never waits
        let cmd = if self.frames_left == 0 {
            self.quitting += 1;
            Cmd::Quit
        } else {
            self.frames_left -= 1;
            self.choose_cmd_for(app)
        };
        let bytes: Vec<u8> = if cmd == Cmd::Quit && self.quitting > 4 {
            vec![0x03] // ctrl-c always leaves the main view
        } else {
            self.keymap.bytes(cmd).map_or_else(|| vec![b'~'], <[u8]>::to_vec)
        };
        unsafe {
            let _ = libc::write(self.master, bytes.as_ptr().cast(), bytes.len());
        }
        self.counters.add(&format!("keys.{cmd:?}"), 1);
        if std::env::var_os("TUISIM_TRACE").is_some() {
            let n_addr = app.table_state.selected().and_then(|s| app.selected_tracer_data.hops_for_flow(app.selected_flow).get(s).map(trippy_core::Hop::addr_count));
            eprintln!(
                "frame {} view {} trace {} flow {} (flows mode {}) selected {:?} addr-index {} of {:?} frozen {} hops {} -> key {cmd:?}",
                self.frames,
                view_name(app),
                app.trace_selected,
                app.selected_flow.0,
                app.show_flows,
                app.table_state.selected(),
                app.selected_hop_address,
                n_addr,
                app.frozen_start.is_some(),
                app.selected_tracer_data.hops_for_flow(app.selected_flow).len(),
            );
        }
        self.abs.u8(cmd_code(cmd));
        self.prev = Some(Prev {
            privacy: app.tui_config.privacy_max_ttl,
            hop_count: hop_count.unwrap_or(0),
            overlay: app.show_help || app.show_settings,
            cmd,
        });
        action
    }
}

fn cmd_code(c: Cmd) -> u8 {
    match c {
        Cmd::SettingsTab(i) => 100 + i,
        Cmd::ToggleHelp => 1,
        Cmd::ToggleSettings => 2,
        Cmd::NextHop => 3,
        Cmd::PreviousHop => 4,
        Cmd::NextTrace => 5,
        Cmd::PreviousTrace => 6,
        Cmd::NextHopAddress => 7,
        Cmd::PreviousHopAddress => 8,
        Cmd::AddressModeIp => 9,
        Cmd::AddressModeHost => 10,
        Cmd::AddressModeBoth => 11,
        Cmd::ToggleFreeze => 12,
        Cmd::ToggleChart => 13,
        Cmd::ToggleMap => 14,
        Cmd::ToggleFlows => 15,
        Cmd::ExpandPrivacy => 16,
        Cmd::ContractPrivacy => 17,
        Cmd::ExpandHosts => 18,
        Cmd::ContractHosts => 19,
        Cmd::ExpandHostsMax => 20,
        Cmd::ContractHostsMin => 21,
        Cmd::ZoomIn => 22,
        Cmd::ZoomOut => 23,
        Cmd::ClearTraceData => 24,
        Cmd::ClearDnsCache => 25,
        Cmd::ClearSelection => 26,
        Cmd::ToggleAsInfo => 27,
        Cmd::ToggleHopDetails => 28,
        Cmd::Idle => 29,
        Cmd::Quit => 30,
    }
}

/// Derive the world scenario of one tracer from the effective configuration.
fn scenario_for(t: &mut Tape, cfg: &TrippyConfig, target: IpAddr, trace_id: u16, rounds: u32) -> Scenario {
    let v6 = target.is_ipv6();
    let mut p = Profile::base();
    p.families = [!v6, v6];
    p.max_path = 20;
    p.max_rounds = 4;
    p.ecmp_heavy = t.chance(400);
    p.stalls = false;
    p.route_change = t.chance(300);
    p.cells = vec![Cell { proto: Proto::Icmp, strat: Strat::Classic, ports: 0, unprivileged: false }];
    let mut sc = gen_scenario(t, &p);
    let tr = &mut sc.tracer;
    tr.v6 = v6;
    tr.proto = match cfg.protocol {
        Protocol::Icmp => Proto::Icmp,
        Protocol::Udp => Proto::Udp,
        Protocol::Tcp => Proto::Tcp,
    };
    tr.strat = match cfg.multipath_strategy {
        MultipathStrategy::Classic => Strat::Classic,
        MultipathStrategy::Paris => Strat::Paris,
        MultipathStrategy::Dublin => Strat::Dublin,
    };
    tr.ports = match cfg.port_direction {
        PortDirection::None => Ports::None,
        PortDirection::FixedSrc(s) => Ports::FixedSrc(s.0),
        PortDirection::FixedDest(d) => Ports::FixedDest(d.0),
        PortDirection::FixedBoth(s, d) => Ports::FixedBoth(s.0, d.0),
    };
    tr.unprivileged = cfg.privilege_mode == PrivilegeMode::Unprivileged;
    tr.ext_enabled = cfg.icmp_extension_parse_mode == trippy_core::IcmpExtensionParseMode::Enabled;
    tr.first_ttl = cfg.first_ttl;
    tr.max_ttl = cfg.max_ttl;
    tr.max_inflight = cfg.max_inflight;
    tr.initial_seq = cfg.initial_sequence;
    tr.packet_size = cfg.packet_size;
    tr.pattern = cfg.payload_pattern;
    tr.tos = cfg.tos;
    tr.trace_id = trace_id;
    tr.rounds = rounds;
    tr.min_round_ns = cfg.min_round_duration.as_nanos() as u64;
    tr.max_round_ns = cfg.max_round_duration.as_nanos() as u64;
    tr.grace_ns = cfg.grace_duration.as_nanos() as u64;
    tr.read_timeout_ns = cfg.read_timeout.as_nanos() as u64;
    tr.tcp_connect_timeout_ns = cfg.min_round_duration.as_nanos() as u64;
    tr.max_samples = cfg.max_samples;
    tr.max_flows = cfg.max_flows();
    tr.explicit_source = cfg.source_addr.is_some();
    tr.interface = cfg.interface.clone();
    tr.source = cfg.source_addr.unwrap_or_else(|| default_source(v6));
    tr.target = target;
    sc.faults.tick_base_ns = 2_000;
    sc.faults.tick_jitter_ns = 0;
    sc.stable = false;
    // a target one or two hops away on a lossy link: whole rounds go unanswered while the
    // target's distance is remembered (hops on display, none of them with an address)
    if t.chance(120) {
        for path in &mut sc.net.paths {
            path.routers.truncate(usize::from(t.chance(500)));
        }
        sc.net.route_change = None;
        sc.net.resp_loss_pm = 250 + t.draw(400);
        sc.tracer.rounds = sc.tracer.rounds.max(8);
    }
    sc
}

/// Run one episode.
pub fn run_episode(tape: Tape, env: &Env, check_c18: bool) -> Outcome {
    let mut t = tape;
    // the keys of this episode's hash maps (see `detrand`): one decision of the tape
    crate::detrand::reseed(u64::from(t.draw(1 << 20)));
    let mut counters = Counters::default();
    let mut violations: Vec<Violation> = Vec::new();
    // targets and configuration
    let ntargets = 1 + t.weighted(&[70, 20, 10]) as u8;
    let mut gen: GenConfig = gen_config(&mut t, Vec::new(), Some(&env.geo_file), true);
    // flows mode needs one target and a per-flow strategy: a third of the episodes is such a trace
    let ntargets = if t.chance(350) {
        for (name, val) in [("protocol", "udp"), ("multipath-strategy", ["paris", "dublin"][t.pick(2)])] {
            let g = &mut gen.given[crate::cfggen::opt_index(name)];
            g.cli = Some(val.to_string());
        }
        for name in ["unprivileged", "max-flows"] {
            gen.given[crate::cfggen::opt_index(name)] = Default::default();
        }
        // ... and in two of five of those the flow limit is small enough to be reached
        if t.chance(400) {
            gen.given[crate::cfggen::opt_index("max-flows")].cli = Some(["1", "2"][t.pick(2)].to_string());
            counters.add("episodes.multipath-biased.small-flow-limit", 1);
        }
        counters.add("episodes.multipath-biased", 1);
        1
    } else {
        ntargets
    };
    let fam = gen.given[crate::cfggen::opt_index("addr-family")].cli.clone().or(gen.given[crate::cfggen::opt_index("addr-family")].file.clone());
    let v6 = match fam.as_deref() {
        Some("ipv6") => true,
        Some("ipv4") => false,
        _ => t.chance(300),
    };
    gen.targets = (1..=ntargets).map(|i| target_addr(v6, i).to_string()).collect();
    let cfg_path = format!("{}/episode.toml", env.workdir);
    let _ = std::fs::write(&cfg_path, gen.toml());
    let argv = gen.argv(&cfg_path);
    let sample = json!({"argv": argv, "config_file": gen.toml()});
    let finish = |stage: &'static str, violations: Vec<Violation>, counters: Counters, frames: u64, abs: u64, full: u64, t: Tape, nontrivial: bool| Outcome {
        stage,
        violations,
        counters,
        frames,
        abs_hash: abs,
        full_hash: full,
        tape: t.record,
        sample: sample.clone(),
        nontrivial,
    };
    let args = match Args::try_parse_from(&argv) {
        Ok(a) => a,
        Err(_) => {
            counters.add("stage.cli-rejected", 1);
            return finish("cli-rejected", violations, counters, 0, 1, 1, t, false);
        }
    };
    let pid: u16 = 4000 + t.draw(60000) as u16;
    let cfg = match std::panic::catch_unwind(std::panic::AssertUnwindSafe(|| TrippyConfig::from(args, &Privilege::new(true, false), pid))) {
        Ok(Ok(c)) => c,
        Ok(Err(_)) => {
            counters.add("stage.config-rejected", 1);
            return finish("config-rejected", violations, counters, 0, 2, 2, t, false);
        }
        Err(_) => {
            violations.push(Violation::new("C16", "c16.cli.config-panicked", format!("building the configuration panicked for {argv:?}")));
            return finish("config-panicked", violations, counters, 0, 3, 3, t, true);
        }
    };
    counters.add("stage.config-accepted", 1);
    // tracers: built by the real builder chain, run over the simulated network
    let rounds = 2 + t.draw(9);
    let mut feeds: Vec<TracerFeed> = Vec::new();
    let mut targets: Vec<IpAddr> = Vec::new();
    let mut used_addrs: Vec<IpAddr> = Vec::new();
    let mut abs = Fnv::default();
    let mut full = Fnv::default();
    for (i, target) in cfg.targets.iter().enumerate() {
        let Ok(addr) = target.parse::<IpAddr>() else { continue };
        let trace_id = pid.wrapping_add(i as u16);
        let built = verif_make_builder(&cfg, addr, trace_id).max_rounds(Some(rounds as usize)).build();
        let sc = scenario_for(&mut t, &cfg, addr, trace_id, rounds);
        for p in sc.net.paths.iter().chain(sc.net.route_change.iter().flat_map(|(_, p)| p.iter())) {
            for r in &p.routers {
                used_addrs.push(r.addr);
            }
        }
        used_addrs.push(addr);
        used_addrs.push(sc.tracer.source);
        let tracer = match built {
            Ok(tr) => tr,
            Err(e) => {
                counters.add("stage.builder-rejected", 1);
                let _ = e;
                continue;
            }
        };
        // the same decision tape drives the simulated network of this tracer
        let run_tape = std::mem::replace(&mut t, Tape::from_values(Vec::new()));
        let mut rec = run_built(sc, Ok(tracer.clone()), run_tape, RunOpts { snapshots: false, clock_log: false });
        t = std::mem::replace(&mut rec.world.tape, Tape::from_values(Vec::new()));
        t.record = std::mem::take(&mut rec.tape_record);
        abs.u64(rec.world.abs_hash.finish());
        full.u64(rec.world.full_hash.finish());
        match &rec.end {
            RunEnd::Panic(p) => {
                violations.push(Violation::new(
                    "C16",
                    format!("c16.cli.panic.{}", tracersim::oracle::panic_loc(p)),
                    format!("the configuration {argv:?} passed the command-line validation and the builder but tracing panicked: {p}"),
                ));
            }
            RunEnd::Err(e, _) => {
                counters.add(&format!("trace.err.{}", e.split(':').next().unwrap_or("")), 1);
                // no socket fault was injected: the configuration itself cannot run, which the
                // command line and the builder had to say up front
                if rec.world.faults.is_empty() {
                    let kind: String = e.split(':').next().unwrap_or("error").chars().map(|c| if c.is_ascii_alphanumeric() { c } else { '-' }).collect();
                    violations.push(Violation::new(
                        "C16",
                        format!("c16.cli.late-error.{kind}"),
                        format!("the configuration {argv:?} passed the command-line validation and the builder, no socket call failed, but tracing ended with: {e}"),
                    ));
                }
            }
            _ => counters.add("trace.ok", 1),
        }
        if rec.world.harness_error.is_some() {
            violations.push(Violation::new("C16", "c16.cli.no-termination", format!("the configuration {argv:?} did not finish its rounds within the call budget")));
        }
        let pending: Vec<OwnedRound> = rec
            .rounds
            .iter()
            .map(|r| OwnedRound { probes: r.probes.clone(), largest_ttl: r.largest_ttl, reason: r.reason })
            .collect();
        tracer.clear();
        targets.push(addr);
        feeds.push(TracerFeed { tracer, pending, next: 0 });
    }
    if cfg.mode != Mode::Tui || feeds.is_empty() {
        counters.add("stage.no-tui", 1);
        let nt = !violations.is_empty();
        return finish("no-tui", violations, counters, 0, abs.finish(), full.finish(), t, nt);
    }
    // the terminal user interface
    let pool = address_pool();
    let mut facts: BTreeMap<IpAddr, AddrFacts> = BTreeMap::new();
    for a in &used_addrs {
        let idx = pool.iter().position(|x| x == a).unwrap_or(pool.len());
        let geo = env.geo_records.iter().find(|g| g.addr == *a);
        facts.insert(*a, facts_for(*a, idx, geo));
    }
    let source_ips: Vec<String> = feeds.iter().filter_map(|f| f.tracer.source_addr()).map(|a| a.to_string()).collect();
    let tui_config = verif_make_tui_config(&cfg, "en".to_string());
    let resolver = DnsResolver::verif_new(trippy_dns::Config::new(cfg.dns_resolve_method, cfg.addr_family, cfg.dns_timeout, cfg.dns_ttl));
    let geoip = match cfg.geoip_mmdb_file.as_ref() {
        Some(p) => GeoIpLookup::from_file(p, "en".to_string()).unwrap_or_else(|_| GeoIpLookup::empty()),
        None => GeoIpLookup::empty(),
    };
    let traces: Vec<TraceInfo> = feeds
        .iter()
        .zip(&cfg.targets)
        .map(|(f, name)| TraceInfo::new(f.tracer.clone(), name.clone()))
        .collect();
    let mut app = TuiApp::new(tui_config, resolver.clone(), geoip, traces);
    // the privacy ttl the configuration asks for is the one in force when the first frame is
    // drawn (0 is a value like any other: nothing but the source address is hidden)
    if app.tui_config.privacy_max_ttl != cfg.tui_privacy_max_ttl {
        violations.push(Violation::new(
            "C18",
            "c18.configured-privacy-not-in-force",
            format!("the configuration gives privacy ttl {:?}, the application starts with {:?}", cfg.tui_privacy_max_ttl, app.tui_config.privacy_max_ttl),
        ));
    }
    let focus = [0u8, 1, 2, 3, 4, 0, 1, 2][t.pick(8)];
    // a dialog episode needs enough key presses to walk a list of some thirty items
    let frames_budget = if focus == 4 { 60 + t.draw(140) } else { 20 + t.skewed(180) };
    let state = Rc::new(RefCell::new(EpisodeState {
        tape: Tape::from_values(Vec::new()),
        app: std::ptr::addr_of!(app),
        master: env.pty.master,
        keymap: Keymap::from_config(&cfg),
        feeds,
        resolver,
        facts,
        geo_addrs: env.geo_records.iter().map(|g| g.addr).collect(),
        targets,
        source_ips,
        frames_left: frames_budget,
        quitting: 0,
        prev: None,
        violations: Vec::new(),
        counters: Counters::default(),
        frames: 0,
        abs,
        full,
        pending_dns: Vec::new(),
        sizes_seen: BTreeMap::new(),
        check_c18,
        focus,
    }));
    let hook: Rc<RefCell<dyn FrameHook>> = state.clone();
    let (w0, h0) = [(80u16, 24u16), (120, 40), (200, 60), (40, 12)][t.pick(4)];
    // from here on the frame hook owns the decision tape
    state.borrow_mut().tape = std::mem::replace(&mut t, Tape::from_values(Vec::new()));
    let backend = SimBackend::new(w0, h0, hook);
    let Ok(mut terminal) = Terminal::new(backend) else {
        return finish("terminal-error", violations, counters, 0, 4, 4, t, false);
    };
    // virtual time for the whole episode (header clock, freeze time stamps, poll deadlines)
    // time only moves in the frame hook: the number of clock reads inside crossterm's poll
    // loop depends on real scheduling and must not leak into what is drawn
    tracersim::clock::enable(tracersim::clock::EPOCH_NS + 86_400_000_000_000, 0, 0, 7);
    tracersim::clock::set_logging(false);
    tracersim::run::install_panic_hook();
    tracersim::run::set_in_sim(true);
    let res = std::panic::catch_unwind(std::panic::AssertUnwindSafe(|| verif_run_app(&mut terminal, &mut app)));
    tracersim::run::set_in_sim(false);
    tracersim::clock::disable();
    // whatever is still queued on the keyboard belongs to this episode only
    drain_stdin();
    let mut st = state.borrow_mut();
    t = std::mem::replace(&mut st.tape, Tape::from_values(Vec::new()));
    match res {
        Ok(Ok(())) => counters.add("tui.exit-normal", 1),
        Ok(Err(e)) => counters.add(&format!("tui.exit-io-error.{}", e.kind()), 1),
        Err(_) => {
            let info = tracersim::run::take_panic_info().unwrap_or_else(|| "unknown panic".into());
            let view = view_name(&app);
            let (frame_no, last_cmd) = (st.frames, st.prev.map(|p| p.cmd));
            st.violations.push(Violation::new(
                "C17",
                layout_solver_site(&info).map_or_else(
                    || format!("c17.panic.{}", tracersim::oracle::panic_loc(&info)),
                    |site| format!("c17.panic.layout-solver.{site}"),
                ),
                format!("frame {frame_no} ({view} view, last command {last_cmd:?}): {info}"),
            ));
        }
    }
    violations.append(&mut st.violations);
    counters.merge(&st.counters);
    for (k, n) in &st.sizes_seen {
        counters.add(&format!("frames.size.{k}"), *n);
    }
    counters.add("stage.tui", 1);
    let frames = st.frames;
    let (a, f) = (st.abs.finish(), st.full.finish());
    drop(st);
    drop(terminal);
    finish("tui", violations, counters, frames, a, f, t, true)
}

fn drain_stdin() {
    unsafe {
        let fl = libc::fcntl(0, libc::F_GETFL);
        libc::fcntl(0, libc::F_SETFL, fl | libc::O_NONBLOCK);
        let mut buf = [0u8; 256];
        while libc::read(0, buf.as_mut_ptr().cast(), buf.len()) > 0 {}
        libc::fcntl(0, libc::F_SETFL, fl);
    }
}

/// The widget on whose behalf ratatui's layout solver failed ("failed to split"), as the
/// panic hook recorded it; `None` for every other panic.
fn layout_solver_site(info: &str) -> Option<String> {
    if !info.contains("failed to split") {
        return None;
    }
    let site = info.rsplit(" [via ").next()?.trim_end_matches(']');
    Some(site.replace("::", "."))
}
