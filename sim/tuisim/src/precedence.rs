//! Option precedence (first sentence of C16): command line over configuration file over
//! documented default, independently per option.
//!
//! This is input enumeration on the real configuration pipeline (clap parse, TOML reader,
//! `TrippyConfig::from`), not simulation; it is reported separately in the evidence
//! (`precedence_cases`).  The check is differential on the WHOLE effective configuration:
//! with every other option fixed,
//!   (cli = X, file = Y)      must equal (cli = X, file absent)
//!   (cli absent, file = Y)   must equal (cli = Y, file absent)
//!   (absent, absent)         must equal (cli = documented default)

use crate::cfggen::{gen_config, GenConfig, Given, Kind, OPTS};
use clap::Parser;
use serde_json::{json, Value};
use simcore::Tape;
use std::sync::atomic::{AtomicUsize, Ordering};
use trippy_privilege::Privilege;
use trippy_tui::verif::{Args, TrippyConfig};

static NEXT_FILE: AtomicUsize = AtomicUsize::new(0);

thread_local! {
    static FILE: String = format!("{}/replays/tuisim-precedence-{}-{}.toml", simcore::verif_dir(), std::process::id(), NEXT_FILE.fetch_add(1, Ordering::SeqCst));
}

fn build(c: &GenConfig) -> Result<TrippyConfig, String> {
    FILE.with(|path| {
        let _ = std::fs::create_dir_all(format!("{}/replays", simcore::verif_dir()));
        std::fs::write(path, c.toml()).map_err(|e| e.to_string())?;
        let argv = c.argv(path);
        let args = Args::try_parse_from(&argv).map_err(|e| format!("cli: {:?}", e.kind()))?;
        std::panic::catch_unwind(std::panic::AssertUnwindSafe(|| TrippyConfig::from(args, &Privilege::new(true, false), 1000)))
            .map_err(|_| "panic".to_string())?
            .map_err(|e| format!("config: {e}"))
    })
}

fn with(c: &GenConfig, i: usize, cli: Option<&str>, file: Option<&str>) -> GenConfig {
    let mut c = c.clone();
    c.given[i] = Given { cli: cli.map(str::to_string), file: file.map(str::to_string) };
    c
}

fn differs(a: &Result<TrippyConfig, String>, b: &Result<TrippyConfig, String>) -> Option<String> {
    match (a, b) {
        (Ok(x), Ok(y)) => {
            if x == y {
                None
            } else {
                // name the first differing field through the Debug rendering
                let (dx, dy) = (format!("{x:#?}"), format!("{y:#?}"));
                let diff = dx.lines().zip(dy.lines()).find(|(l, r)| l != r).map_or_else(|| "(differs)".to_string(), |(l, r)| format!("{} vs {}", l.trim(), r.trim()));
                Some(diff)
            }
        }
        (Err(_), Err(_)) => None,
        (Ok(_), Err(e)) => Some(format!("accepted vs rejected ({e})")),
        (Err(e), Ok(_)) => Some(format!("rejected ({e}) vs accepted")),
    }
}

/// A precedence case on one entry of a keyed table (theme colours, key bindings): the same
/// three comparisons, with the entry given through `--tui-theme-colors` / `[theme-colors]`
/// (`--tui-key-bindings` / `[bindings]`).  In the default comparison the file section exists
/// (it holds some other entry), so "absent" means absent from an existing section too.
fn keyed_case(t: &mut Tape, base: &GenConfig, theme: bool) -> Option<(String, String)> {
    use crate::cfggen::{BINDING_DEFAULTS, COLORS, KEYS, THEME_DEFAULTS};
    let (table, values, what_kind) = if theme { (THEME_DEFAULTS, COLORS, "theme") } else { (BINDING_DEFAULTS, KEYS, "binding") };
    let (k, default) = table[t.pick(table.len())];
    let x = values[t.pick(values.len())];
    let y_pool: Vec<&str> = values.iter().copied().filter(|v| *v != x).collect();
    let y = y_pool[t.pick(y_pool.len())];
    let (other, other_default) = table[(table.iter().position(|(n, _)| *n == k).unwrap_or(0) + 1 + t.pick(table.len() - 1)) % table.len()];
    let mut base = base.clone();
    {
        let (cli, file) = if theme { (&mut base.theme_cli, &mut base.theme_file) } else { (&mut base.bindings_cli, &mut base.bindings_file) };
        cli.retain(|(n, _)| n != k);
        file.retain(|(n, _)| n != k);
    }
    let put = |c: &GenConfig, cli: Option<&str>, file: Option<&str>, section: bool| -> GenConfig {
        let mut c = c.clone();
        let (l, f) = if theme { (&mut c.theme_cli, &mut c.theme_file) } else { (&mut c.bindings_cli, &mut c.bindings_file) };
        if let Some(v) = cli {
            l.push((k.to_string(), v.to_string()));
        }
        if let Some(v) = file {
            f.push((k.to_string(), v.to_string()));
        }
        if section && f.is_empty() {
            // the section exists: some other entry, at its own documented default
            f.push((other.to_string(), other_default.to_string()));
        }
        c
    };
    let checks = [
        ("cli-over-file", put(&base, Some(x), Some(y), false), put(&base, Some(x), None, false)),
        ("file-as-cli", put(&base, None, Some(y), false), put(&base, Some(y), None, false)),
        // the default is written into the file here: some default keys (",", "=") cannot
        // be written in the comma-separated command-line form
        ("default", put(&base, None, None, true), put(&base, None, Some(default), true)),
    ];
    for (what, a, b) in checks {
        let (ra, rb) = (build(&a), build(&b));
        if let Some(d) = differs(&ra, &rb) {
            return Some((
                format!("c16.precedence.{what}.{what_kind}.{k}"),
                format!(
                    "{what_kind} entry {k} ({what}): `{}` with file [{}] differs from `{}` with file [{}]: {d}",
                    a.argv("FILE").join(" "),
                    a.toml().replace('\n', "; "),
                    b.argv("FILE").join(" "),
                    b.toml().replace('\n', "; "),
                ),
            ));
        }
    }
    None
}

/// One precedence case; `Some((signature, detail))` when it fails.
pub fn run_case(seed: u64, _worker: usize) -> Option<(String, String)> {
    let mut t = Tape::from_seed(seed);
    let base = gen_config(&mut t, vec!["203.0.113.1".to_string()], None, true);
    // one case in four is about an entry of the theme or of the key bindings
    match t.draw(8) {
        0 => return keyed_case(&mut t, &base, true),
        1 => return keyed_case(&mut t, &base, false),
        _ => {}
    }
    let i = t.pick(OPTS.len());
    let o = &OPTS[i];
    let x = o.values[t.pick(o.values.len())];
    let y_pool: Vec<&str> = o.values.iter().copied().filter(|v| *v != x).collect();
    let y = if y_pool.is_empty() { x } else { y_pool[t.pick(y_pool.len())] };
    let checks: Vec<(&str, GenConfig, GenConfig)> = match o.kind {
        Kind::Flag => vec![
            ("cli-over-file", with(&base, i, Some("true"), Some("false")), with(&base, i, Some("true"), None)),
            ("file-as-cli", with(&base, i, None, Some("true")), with(&base, i, Some("true"), None)),
            ("default", with(&base, i, None, None), with(&base, i, None, Some(o.default))),
        ],
        _ => {
            let mut v = vec![
                ("cli-over-file", with(&base, i, Some(x), Some(y)), with(&base, i, Some(x), None)),
                ("file-as-cli", with(&base, i, None, Some(y)), with(&base, i, Some(y), None)),
            ];
            if !o.default.is_empty() {
                v.push(("default", with(&base, i, None, None), with(&base, i, Some(o.default), None)));
            }
            v
        }
    };
    for (what, a, b) in checks {
        let (ra, rb) = (build(&a), build(&b));
        // clap's `conflicts_with` rules speak about options that are BOTH on the command
        // line (--source-address / --interface): moving one of them from the file to the
        // command line is then not the same input, and the property does not relate the two
        if what == "file-as-cli" && ra.is_ok() && matches!(&rb, Err(e) if e == "cli: ArgumentConflict") {
            continue;
        }
        if let Some(d) = differs(&ra, &rb) {
            return Some((
                format!("c16.precedence.{what}.{}", o.name),
                format!(
                    "option {} ({what}): `{}` with file [{}] differs from `{}` with file [{}]: {d}",
                    o.name,
                    a.argv("FILE").join(" "),
                    a.toml().replace('\n', "; "),
                    b.argv("FILE").join(" "),
                    b.toml().replace('\n', "; "),
                ),
            ));
        }
    }
    None
}

/// Run `n` precedence cases; returns the report and the failures (signature, seed, detail).
pub fn run(batch: u64, n: u64) -> (Value, Vec<(String, u64, String)>) {
    let mut fails: Vec<(String, u64, String)> = Vec::new();
    let stop = std::sync::atomic::AtomicBool::new(false);
    simcore::pool::run_indexed(
        n,
        simcore::pool::workers(),
        64,
        |i| {
            let seed = simcore::run_seed(batch, "C16-precedence", 0, i);
            (seed, run_case(seed, 0))
        },
        |_, (seed, r)| {
            if let Some((sig, detail)) = r {
                fails.push((sig, seed, detail));
            }
        },
        &stop,
    );
    // remove the scratch files of this process
    if let Ok(rd) = std::fs::read_dir(format!("{}/replays", simcore::verif_dir())) {
        let prefix = format!("tuisim-precedence-{}-", std::process::id());
        for e in rd.flatten() {
            if e.file_name().to_string_lossy().starts_with(&prefix) {
                let _ = std::fs::remove_file(e.path());
            }
        }
    }
    let report = json!({
        "cases": n,
        "options_in_table": OPTS.len(),
        "theme_entries_in_table": crate::cfggen::THEME_DEFAULTS.len(),
        "binding_entries_in_table": crate::cfggen::BINDING_DEFAULTS.len(),
        "checks_per_case": "cli-over-file, file-as-cli, documented-default (differential on the whole TrippyConfig)",
        "failures": fails.len(),
        "note": "input enumeration on the configuration pipeline, not simulation",
    });
    (report, fails)
}
