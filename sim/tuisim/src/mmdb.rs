//! A minimal MaxMind DB writer: the harness writes a small, valid GeoIP2-City style
//! database itself so that the real `GeoIpLookup` / `maxminddb` reader path runs.

use std::net::IpAddr;

/// One city record.
#[derive(Debug, Clone)]
pub struct GeoRecord {
    pub addr: IpAddr,
    pub city: String,
    pub subdivision: String,
    pub subdivision_code: String,
    pub country: String,
    pub country_code: String,
    pub continent: String,
    pub latitude: f64,
    pub longitude: f64,
    pub radius: u16,
}

fn ctrl(ty: u8, size: usize, out: &mut Vec<u8>) {
    // extended types carry type - 7 in the next byte
    let (ty_bits, ext) = if ty > 7 { (0u8, Some(ty - 7)) } else { (ty, None) };
    if size < 29 {
        out.push((ty_bits << 5) | size as u8);
        if let Some(e) = ext {
            out.push(e);
        }
    } else if size < 29 + 256 {
        out.push((ty_bits << 5) | 29);
        if let Some(e) = ext {
            out.push(e);
        }
        out.push((size - 29) as u8);
    } else {
        out.push((ty_bits << 5) | 30);
        if let Some(e) = ext {
            out.push(e);
        }
        let v = (size - 285) as u16;
        out.extend_from_slice(&v.to_be_bytes());
    }
}

fn put_str(s: &str, out: &mut Vec<u8>) {
    ctrl(2, s.len(), out);
    out.extend_from_slice(s.as_bytes());
}

fn put_u16(v: u16, out: &mut Vec<u8>) {
    ctrl(5, 2, out);
    out.extend_from_slice(&v.to_be_bytes());
}

fn put_u32(v: u32, out: &mut Vec<u8>) {
    ctrl(6, 4, out);
    out.extend_from_slice(&v.to_be_bytes());
}

fn put_u64(v: u64, out: &mut Vec<u8>) {
    ctrl(9, 8, out);
    out.extend_from_slice(&v.to_be_bytes());
}

fn put_double(v: f64, out: &mut Vec<u8>) {
    ctrl(3, 8, out);
    out.extend_from_slice(&v.to_be_bytes());
}

fn put_map(n: usize, out: &mut Vec<u8>) {
    ctrl(7, n, out);
}

fn put_array(n: usize, out: &mut Vec<u8>) {
    ctrl(11, n, out);
}

fn names(name: &str, out: &mut Vec<u8>) {
    put_str("names", out);
    put_map(1, out);
    put_str("en", out);
    put_str(name, out);
}

fn encode_record(r: &GeoRecord, out: &mut Vec<u8>) {
    put_map(5, out);
    put_str("city", out);
    put_map(1, out);
    names(&r.city, out);
    put_str("continent", out);
    put_map(1, out);
    names(&r.continent, out);
    put_str("country", out);
    put_map(2, out);
    put_str("iso_code", out);
    put_str(&r.country_code, out);
    names(&r.country, out);
    put_str("location", out);
    put_map(3, out);
    put_str("accuracy_radius", out);
    put_u16(r.radius, out);
    put_str("latitude", out);
    put_double(r.latitude, out);
    put_str("longitude", out);
    put_double(r.longitude, out);
    put_str("subdivisions", out);
    put_array(1, out);
    put_map(2, out);
    put_str("iso_code", out);
    put_str(&r.subdivision_code, out);
    names(&r.subdivision, out);
}

const DATA_FLAG: u32 = 0x8000_0000;

/// Build the database bytes (IPv6 tree, 32-bit records; IPv4 addresses live under ::/96).
#[must_use]
pub fn build(records: &[GeoRecord]) -> Vec<u8> {
    let mut data: Vec<u8> = Vec::new();
    let mut offsets: Vec<u32> = Vec::new();
    for r in records {
        offsets.push(data.len() as u32);
        encode_record(r, &mut data);
    }
    // trie: node = [left, right]; 0 = empty, DATA_FLAG|off = data, else node index + 1
    let mut nodes: Vec<[u32; 2]> = vec![[0, 0]];
    for (r, off) in records.iter().zip(&offsets) {
        let bits: [u8; 16] = match r.addr {
            IpAddr::V6(a) => a.octets(),
            IpAddr::V4(a) => {
                let mut b = [0u8; 16];
                b[12..].copy_from_slice(&a.octets());
                b
            }
        };
        let mut node = 0usize;
        for i in 0..128 {
            let bit = usize::from((bits[i / 8] >> (7 - i % 8)) & 1);
            if i == 127 {
                nodes[node][bit] = DATA_FLAG | off;
            } else {
                let next = nodes[node][bit];
                if next == 0 || next & DATA_FLAG != 0 {
                    nodes.push([0, 0]);
                    let idx = nodes.len() - 1;
                    nodes[node][bit] = idx as u32 + 1;
                    node = idx;
                } else {
                    node = next as usize - 1;
                }
            }
        }
    }
    let node_count = nodes.len() as u32;
    let mut out: Vec<u8> = Vec::with_capacity(nodes.len() * 8 + data.len() + 256);
    for n in &nodes {
        for rec in n {
            let v = if *rec == 0 {
                node_count
            } else if rec & DATA_FLAG != 0 {
                node_count + 16 + (rec & !DATA_FLAG)
            } else {
                rec - 1
            };
            out.extend_from_slice(&v.to_be_bytes());
        }
    }
    out.extend_from_slice(&[0u8; 16]);
    out.extend_from_slice(&data);
    out.extend_from_slice(b"\xab\xcd\xefMaxMind.com");
    let mut m: Vec<u8> = Vec::new();
    put_map(9, &mut m);
    put_str("binary_format_major_version", &mut m);
    put_u16(2, &mut m);
    put_str("binary_format_minor_version", &mut m);
    put_u16(0, &mut m);
    put_str("build_epoch", &mut m);
    put_u64(1_700_000_000, &mut m);
    put_str("database_type", &mut m);
    put_str("GeoIP2-City", &mut m);
    put_str("description", &mut m);
    put_map(1, &mut m);
    put_str("en", &mut m);
    put_str("tuisim test database", &mut m);
    put_str("ip_version", &mut m);
    put_u16(6, &mut m);
    put_str("languages", &mut m);
    put_array(1, &mut m);
    put_str("en", &mut m);
    put_str("node_count", &mut m);
    put_u32(node_count, &mut m);
    put_str("record_size", &mut m);
    put_u16(32, &mut m);
    out.extend_from_slice(&m);
    out
}
