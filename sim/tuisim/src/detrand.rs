//! Deterministic `getrandom`.
//!
//! std seeds the keys of every `HashMap` from `getrandom` (once per thread, then one
//! increment per map), and ratatui's layout solver iterates over such maps: which of several
//! equally good layouts it returns - and whether it terminates at all for some constraint
//! sets - depends on those keys.  std looks `getrandom` up as a weak symbol precisely so
//! that it can be interposed "to disable randomness for consistency"; the definition below
//! wins at link time.  Every episode runs on a fresh thread, whose byte stream starts from
//! the same state, so an episode is a function of its decision tape alone.

use std::cell::Cell;
use std::sync::atomic::{AtomicBool, Ordering};

static ON: AtomicBool = AtomicBool::new(false);

thread_local! {
    static COUNTER: Cell<u64> = const { Cell::new(0) };
}

/// Start this thread's byte stream from `salt` (the first decision of an episode's tape:
/// real processes have random keys, so the keys vary from episode to episode too).
pub fn reseed(salt: u64) {
    let _ = COUNTER.try_with(|c| c.set(salt.wrapping_mul(0x9E37_79B9_7F4A_7C15)));
}

/// Serve deterministic bytes from now on (all threads of this process).
pub fn enable() {
    ON.store(true, Ordering::SeqCst);
}

/// # Safety
/// `buf` must be valid for `len` bytes (the libc contract).
#[no_mangle]
pub unsafe extern "C" fn getrandom(buf: *mut libc::c_void, len: libc::size_t, flags: libc::c_uint) -> libc::ssize_t {
    if !ON.load(Ordering::SeqCst) || buf.is_null() {
        return libc::syscall(libc::SYS_getrandom, buf, len, flags) as libc::ssize_t;
    }
    let out = std::slice::from_raw_parts_mut(buf.cast::<u8>(), len);
    let mut c = COUNTER.try_with(Cell::get).unwrap_or(0x5151);
    for chunk in out.chunks_mut(8) {
        c = c.wrapping_add(1);
        let v = simcore::mix64(c ^ 0x7472_6970_7079_7369).to_le_bytes();
        chunk.copy_from_slice(&v[..chunk.len()]);
    }
    let _ = COUNTER.try_with(|x| x.set(c));
    len as libc::ssize_t
}
