//! tuisim: the terminal UI and the command-line configuration pipeline under a simulated
//! terminal, keyboard, DNS completion, clock and trace feed (C16 command-line half, C17, C18).

mod backend;
mod cfggen;
mod detrand;
mod episode;
mod mmdb;
mod precedence;
mod pty;

use episode::{Env, Outcome};
use serde_json::{json, Map, Value};
use simcore::evidence::{Counters, Evidence};
use simcore::findings::Findings;
use simcore::{Tape, EXIT_HARNESS, EXIT_OK, EXIT_VIOLATION};
use std::collections::{BTreeMap, HashSet};
use std::io::{BufRead, BufReader, Write};
use std::process::{Command, Stdio};


fn make_env() -> Result<Env, String> {
    #[allow(non_snake_case)]
    let VERIF_DIR = simcore::verif_dir();
    let pty = pty::Pty::install()?;
    let workdir = format!("{VERIF_DIR}/replays/tuisim-work-{}", std::process::id());
    std::fs::create_dir_all(&workdir).map_err(|e| e.to_string())?;
    let geo_records = episode::geo_records();
    let geo_file = format!("{workdir}/geo.mmdb");
    std::fs::write(&geo_file, mmdb::build(&geo_records)).map_err(|e| e.to_string())?;
    Ok(Env { pty, workdir, geo_file, geo_records })
}

fn cleanup(env: &Env) {
    let _ = std::fs::remove_dir_all(&env.workdir);
}

fn episode_seed(batch: u64, i: u64) -> u64 {
    // one episode stream serves C16 (command line half), C17 and C18
    simcore::run_seed(batch, "tuisim", 0, i)
}

fn outcome_line(i: u64, seed: u64, o: &Outcome, recheck: Option<bool>) -> Value {
    json!({
        "i": i,
        "seed": seed.to_string(),
        "stage": o.stage,
        "frames": o.frames,
        "abs": o.abs_hash.to_string(),
        "nontrivial": o.nontrivial,
        "viol": o.violations.iter().map(|v| json!([v.prop, v.sig, v.detail])).collect::<Vec<_>>(),
        "recheck": recheck,
        "sample": if i < 2 { o.sample.clone() } else { Value::Null },
    })
}

/// Worker: episodes `start, start+step, ...` (count of them), one JSON line each, then a
/// final line with the merged counters.
fn run_worker(batch: u64, start: u64, step: u64, count: u64) -> i32 {
    let env = match make_env() {
        Ok(e) => e,
        Err(e) => {
            eprintln!("harness error: {e}");
            return EXIT_HARNESS;
        }
    };
    let mut counters = Counters::default();
    let out = std::io::stdout();
    let mut frames = 0u64;
    for k in 0..count {
        let i = start + k * step;
        let seed = episode_seed(batch, i);
        {
            let mut lock = out.lock();
            let _ = writeln!(lock, "{}", json!({"start": i, "seed": seed.to_string()}));
            let _ = lock.flush();
        }
        let o = run_episode(Tape::from_seed(seed), &env, true);
        let recheck = if k % 40 == 0 {
            let o2 = run_episode(Tape::from_values(o.tape.clone()), &env, true);
            Some(o2.full_hash == o.full_hash && o2.tape == o.tape)
        } else {
            None
        };
        counters.merge(&o.counters);
        frames += o.frames;
        let line = outcome_line(i, seed, &o, recheck);
        let mut lock = out.lock();
        let _ = writeln!(lock, "{line}");
    }
    let mut lock = out.lock();
    let _ = writeln!(lock, "{}", json!({"final": true, "frames": frames, "counters": counters.to_json()}));
    cleanup(&env);
    EXIT_OK
}

/// Run one episode in a forked copy of this process, on a fresh thread of that copy.
///
/// An episode must be a function of its decision tape.  Two things in the dependencies
/// stand against that: std seeds the keys of every `HashMap` from `getrandom` (made
/// deterministic in `detrand`, per thread), and cassowary - ratatui's layout solver -
/// numbers its variables from a process-global counter and hashes those numbers, so that
/// which of several equally good layouts it returns, and for some constraint sets whether
/// it terminates at all, depends on everything the process has laid out before.  A fork
/// taken from the same point gives every episode the same process image to start from.
fn run_episode(tape: Tape, env: &Env, check_c18: bool) -> Outcome {
    let mut fds = [0 as libc::c_int; 2];
    if unsafe { libc::pipe(fds.as_mut_ptr()) } != 0 {
        eprintln!("harness error: pipe failed");
        std::process::exit(EXIT_HARNESS);
    }
    let pid = unsafe { libc::fork() };
    if pid < 0 {
        eprintln!("harness error: fork failed");
        std::process::exit(EXIT_HARNESS);
    }
    if pid == 0 {
        // never outlive the process that waits for the result (a hung episode is killed
        // through its waiter)
        unsafe {
            libc::prctl(libc::PR_SET_PDEATHSIG, libc::SIGKILL);
            if libc::getppid() == 1 {
                libc::_exit(0);
            }
            libc::close(fds[0]);
        }
        let o = std::thread::scope(|scope| {
            std::thread::Builder::new()
                .stack_size(64 << 20)
                .spawn_scoped(scope, move || episode::run_episode(tape, env, check_c18))
                .expect("spawn episode thread")
                .join()
        });
        let text = match o {
            Ok(o) => json!({
                "stage": o.stage,
                "violations": o.violations.iter().map(|v| json!({"prop": v.prop, "sig": v.sig, "detail": v.detail})).collect::<Vec<_>>(),
                "counters": o.counters.to_json(),
                "frames": o.frames,
                "abs_hash": o.abs_hash.to_string(),
                "full_hash": o.full_hash.to_string(),
                "tape": o.tape,
                "sample": o.sample,
                "nontrivial": o.nontrivial,
            })
            .to_string(),
            Err(_) => json!({"harness_panic": true}).to_string(),
        };
        let bytes = text.as_bytes();
        let mut off = 0;
        while off < bytes.len() {
            let n = unsafe { libc::write(fds[1], bytes[off..].as_ptr().cast(), bytes.len() - off) };
            if n <= 0 {
                break;
            }
            off += n as usize;
        }
        unsafe { libc::_exit(0) };
    }
    unsafe { libc::close(fds[1]) };
    if std::env::var_os("TUISIM_WORKER").is_some() {
        // the watchdog of the parent samples and kills the process that runs the episode
        eprintln!("hb pid={pid}");
    }
    let mut text = Vec::new();
    let mut buf = [0u8; 65536];
    loop {
        let n = unsafe { libc::read(fds[0], buf.as_mut_ptr().cast(), buf.len()) };
        if n <= 0 {
            break;
        }
        text.extend_from_slice(&buf[..n as usize]);
    }
    unsafe { libc::close(fds[0]) };
    let mut status: libc::c_int = 0;
    unsafe { libc::waitpid(pid, &mut status, 0) };
    let v: Value = serde_json::from_slice(&text).unwrap_or(Value::Null);
    if v.is_null() || v["harness_panic"].as_bool() == Some(true) {
        // the copy died (signal, abort, stack overflow) before it could report
        let how = if libc::WIFSIGNALED(status) { format!("signal-{}", libc::WTERMSIG(status)) } else { format!("exit-{}", libc::WEXITSTATUS(status)) };
        let mut counters = Counters::default();
        counters.add("stage.process-died", 1);
        return Outcome {
            stage: "process-died",
            violations: vec![tracersim::oracle::Violation::new("C17", format!("c17.process-died.{how}"), format!("the process running the episode ended with {how} before the episode finished"))],
            counters,
            frames: 0,
            abs_hash: 0,
            full_hash: 0,
            tape: Vec::new(),
            sample: Value::Null,
            nontrivial: true,
        };
    }
    let stage: &'static str = match v["stage"].as_str().unwrap_or("") {
        "tui" => "tui",
        "no-tui" => "no-tui",
        "cli-rejected" => "cli-rejected",
        "config-rejected" => "config-rejected",
        "config-panicked" => "config-panicked",
        "terminal-error" => "terminal-error",
        _ => "other",
    };
    let mut counters = Counters::default();
    if let Some(m) = v["counters"].as_object() {
        for (k, n) in m {
            counters.add(k, n.as_u64().unwrap_or(0));
        }
    }
    Outcome {
        stage,
        violations: v["violations"]
            .as_array()
            .map(|a| {
                a.iter()
                    .map(|x| {
                        let prop: &'static str = match x["prop"].as_str().unwrap_or("") {
                            "C16" => "C16",
                            "C18" => "C18",
                            _ => "C17",
                        };
                        tracersim::oracle::Violation::new(prop, x["sig"].as_str().unwrap_or("").to_string(), x["detail"].as_str().unwrap_or("").to_string())
                    })
                    .collect()
            })
            .unwrap_or_default(),
        counters,
        frames: v["frames"].as_u64().unwrap_or(0),
        abs_hash: v["abs_hash"].as_str().and_then(|s| s.parse().ok()).unwrap_or(0),
        full_hash: v["full_hash"].as_str().and_then(|s| s.parse().ok()).unwrap_or(0),
        tape: v["tape"].as_array().map(|a| a.iter().filter_map(|x| x.as_u64().map(|x| x as u32)).collect()).unwrap_or_default(),
        sample: v["sample"].clone(),
        nontrivial: v["nontrivial"].as_bool().unwrap_or(false),
    }
}

/// Run one episode in a child process (the parent never draws a frame itself: an episode
/// may hang, see the known finding `c17.hang.layout-solver`).  `None` when the child did
/// not finish within `limit` or its output could not be read.
fn exec_episode(req: &Value, limit: std::time::Duration) -> Option<Value> {
    use std::io::Write as _;
    let exe = std::env::current_exe().ok()?;
    let mut child = Command::new(&exe).arg("exec").stdin(Stdio::piped()).stdout(Stdio::piped()).stderr(Stdio::null()).spawn().ok()?;
    child.stdin.take()?.write_all(req.to_string().as_bytes()).ok()?;
    let mut out = child.stdout.take()?;
    let (tx, rx) = std::sync::mpsc::channel();
    std::thread::spawn(move || {
        let mut text = String::new();
        let _ = std::io::Read::read_to_string(&mut out, &mut text);
        let _ = tx.send(text);
    });
    match rx.recv_timeout(limit) {
        Ok(text) => {
            let _ = child.wait();
            text.lines().rev().find_map(|l| serde_json::from_str::<Value>(l).ok())
        }
        Err(_) => {
            let _ = child.kill();
            let _ = child.wait();
            None
        }
    }
}

fn tape_of(v: &Value) -> Vec<u32> {
    v["tape"].as_array().map(|a| a.iter().filter_map(|x| x.as_u64().map(|x| x as u32)).collect()).unwrap_or_default()
}

fn violation_sig(limit: std::time::Duration, prop: &str, tape: &[u32], want: &str) -> Option<String> {
    let o = exec_episode(&json!({"tape": tape}), limit)?;
    o["violations"].as_array()?.iter().find(|v| v["prop"].as_str() == Some(prop) && v["sig"].as_str() == Some(want)).map(|_| want.to_string())
}

fn run_check(prop: &str, tier: &str, batch: u64) -> i32 {
    #[allow(non_snake_case)]
    let VERIF_DIR = simcore::verif_dir();
    let started = std::time::Instant::now();
    let findings = match Findings::load(&format!("{VERIF_DIR}/known-findings.jsonl")) {
        Ok(f) => f,
        Err(e) => {
            eprintln!("harness error: {e}");
            return EXIT_HARNESS;
        }
    };
    let scale: f64 = std::env::var("VERIF_SCALE").ok().and_then(|s| s.parse().ok()).unwrap_or(1.0);
    let episodes = ((if tier == "thorough" { 400_000.0 } else { 12_000.0 }) * scale).ceil() as u64;
    let workers = simcore::pool::workers() as u64;
    println!("check {prop} tier={tier} VERIF_SEED={batch} engine=tuisim episodes={episodes} worker-processes={workers}");
    let exe = std::env::current_exe().expect("current exe");
    // one worker process per core (crossterm's input reader is process-global); the parent
    // reads their output concurrently and watches for an episode that stops making progress
    enum Msg {
        Line(u64, u64, Value),
        Heartbeat(u64, u64, String),
        Eof(u64, u64),
    }
    let (tx, rx) = std::sync::mpsc::channel::<Msg>();
    struct Slot {
        child: std::process::Child,
        next_start: u64,
        remaining: u64,
        current: Option<(u64, u64)>,
        generation: u64,
        last_progress: std::time::Instant,
        last_hb: String,
        done: bool,
        /// The forked copy of the worker that runs the current episode.
        episode_pid: Option<i32>,
        /// Set when the episode was first seen without progress for `hang_limit`: the time
        /// and the CPU seconds its process had used by then.  It is a hang when the process
        /// goes on to burn CPU time without a frame (a busy machine alone does not do that).
        suspect: Option<(std::time::Instant, f64)>,
    }
    // CPU seconds (user + system) a process has used, from /proc/<pid>/stat
    let proc_cpu_secs = |pid: i32| -> Option<f64> {
        let stat = std::fs::read_to_string(format!("/proc/{pid}/stat")).ok()?;
        let rest = stat.rsplit_once(')')?.1;
        let f: Vec<&str> = rest.split_whitespace().collect();
        let (ut, st) = (f.get(11)?.parse::<f64>().ok()?, f.get(12)?.parse::<f64>().ok()?);
        let hz = unsafe { libc::sysconf(libc::_SC_CLK_TCK) } as f64;
        Some((ut + st) / if hz > 0.0 { hz } else { 100.0 })
    };
    let hang_limit = std::time::Duration::from_secs(std::env::var("VERIF_TUI_HANG_SECS").ok().and_then(|s| s.parse().ok()).unwrap_or(8));
    let spawn = |w: u64, generation: u64, start: u64, count: u64, tx: std::sync::mpsc::Sender<Msg>| -> Result<std::process::Child, String> {
        let mut child = Command::new(&exe)
            .args(["worker", &batch.to_string(), &start.to_string(), &workers.to_string(), &count.to_string()])
            .env("TUISIM_WORKER", "1")
            .stdout(Stdio::piped())
            .stderr(Stdio::piped())
            .spawn()
            .map_err(|e| e.to_string())?;
        let out = child.stdout.take().ok_or("no stdout")?;
        let err = child.stderr.take().ok_or("no stderr")?;
        let tx2 = tx.clone();
        std::thread::spawn(move || {
            for line in BufReader::new(out).lines().map_while(Result::ok) {
                if let Ok(v) = serde_json::from_str::<Value>(&line) {
                    let _ = tx2.send(Msg::Line(w, generation, v));
                }
            }
            let _ = tx2.send(Msg::Eof(w, generation));
        });
        std::thread::spawn(move || {
            for line in BufReader::new(err).lines().map_while(Result::ok) {
                if line.starts_with("hb ") {
                    let _ = tx.send(Msg::Heartbeat(w, generation, line));
                }
            }
        });
        Ok(child)
    };
    let mut slots: BTreeMap<u64, Slot> = BTreeMap::new();
    for w in 0..workers {
        let count = (episodes + workers - 1 - w) / workers;
        if count == 0 {
            continue;
        }
        match spawn(w, 0, w, count, tx.clone()) {
            Ok(child) => {
                slots.insert(w, Slot { child, next_start: w, remaining: count, current: None, generation: 0, last_progress: std::time::Instant::now(), last_hb: String::new(), done: false, episode_pid: None, suspect: None });
            }
            Err(e) => {
                eprintln!("harness error: cannot start worker: {e}");
                return EXIT_HARNESS;
            }
        }
    }
    let mut lines: Vec<Value> = Vec::new();
    let mut counters = Counters::default();
    let mut frames = 0u64;
    let mut hangs: Vec<(u64, u64, String)> = Vec::new();
    while slots.values().any(|s| !s.done) {
        match rx.recv_timeout(std::time::Duration::from_millis(500)) {
            Ok(Msg::Line(w, g, v)) => {
                let Some(slot) = slots.get_mut(&w) else { continue };
                if slot.generation != g {
                    continue;
                }
                slot.last_progress = std::time::Instant::now();
                if v["final"].as_bool() == Some(true) {
                    frames += v["frames"].as_u64().unwrap_or(0);
                    if let Some(m) = v["counters"].as_object() {
                        for (k, n) in m {
                            counters.add(k, n.as_u64().unwrap_or(0));
                        }
                    }
                } else if let Some(i) = v["start"].as_u64() {
                    let seed = v["seed"].as_str().and_then(|s| s.parse().ok()).unwrap_or(0);
                    slot.current = Some((i, seed));
                    slot.last_hb.clear();
                } else {
                    slot.current = None;
                    slot.next_start = v["i"].as_u64().unwrap_or(0) + workers;
                    slot.remaining = slot.remaining.saturating_sub(1);
                    lines.push(v);
                }
            }
            Ok(Msg::Heartbeat(w, g, line)) => {
                if let Some(slot) = slots.get_mut(&w).filter(|s| s.generation == g) {
                    if let Some(p) = line.strip_prefix("hb pid=") {
                        slot.episode_pid = p.trim().parse().ok();
                    } else {
                        slot.last_progress = std::time::Instant::now();
                        slot.last_hb = line;
                    }
                }
            }
            Ok(Msg::Eof(w, g)) => {
                if let Some(slot) = slots.get_mut(&w).filter(|s| s.generation == g) {
                    let _ = slot.child.wait();
                    if slot.current.is_none() {
                        slot.done = true;
                    }
                }
            }
            Err(_) => {}
        }
        // watchdog
        let now = std::time::Instant::now();
        let mut stuck: Vec<u64> = Vec::new();
        for (w, s) in slots.iter_mut() {
            if s.done || s.current.is_none() || now.duration_since(s.last_progress) <= hang_limit {
                s.suspect = None;
                continue;
            }
            let pid = s.episode_pid.unwrap_or(s.child.id() as i32);
            let cpu = proc_cpu_secs(pid);
            match (s.suspect, cpu) {
                (None, Some(c)) => s.suspect = Some((now, c)),
                (None, None) => s.suspect = Some((now, -1.0)),
                (Some((since, c0)), Some(c)) if c0 >= 0.0 => {
                    if c - c0 >= hang_limit.as_secs_f64() * 0.75 || now.duration_since(since) > hang_limit * 10 {
                        stuck.push(*w);
                    }
                }
                (Some((since, _)), _) => {
                    if now.duration_since(since) > hang_limit * 3 {
                        stuck.push(*w);
                    }
                }
            }
        }
        for w in stuck {
            let slot = slots.get_mut(&w).expect("slot");
            slot.suspect = None;
            let (i, seed) = slot.current.take().expect("current episode");
            // where is it stuck?  sample the worker's stack before killing it
            let stack = Command::new("gdb")
                .args(["-p", &slot.episode_pid.map_or_else(|| slot.child.id().to_string(), |p| p.to_string()), "-batch", "-ex", "thread apply all bt 60"])
                .stdin(Stdio::null())
                .stderr(Stdio::null())
                .output()
                .map(|o| String::from_utf8_lossy(&o.stdout).to_string())
                .unwrap_or_default();
            let place = if stack.contains("cassowary::") && stack.contains("Table") {
                "layout-solver.table"
            } else if stack.contains("cassowary::") {
                "layout-solver"
            } else if stack.contains("trippy_tui::frontend::render") {
                "render"
            } else if stack.contains("trippy_tui::frontend") {
                "event-loop"
            } else {
                "unknown"
            };
            slot.last_hb = format!("{} | stuck in: {place}", slot.last_hb);
            if let Some(p) = slot.episode_pid.take() {
                unsafe { libc::kill(p, libc::SIGKILL) };
            }
            let _ = slot.child.kill();
            let _ = slot.child.wait();
            hangs.push((i, seed, slot.last_hb.clone()));
            slot.remaining = slot.remaining.saturating_sub(1);
            let next = i + workers;
            if slot.remaining == 0 {
                slot.done = true;
            } else {
                slot.generation += 1;
                match spawn(w, slot.generation, next, slot.remaining, tx.clone()) {
                    Ok(child) => {
                        slot.child = child;
                        slot.last_progress = std::time::Instant::now();
                    }
                    Err(e) => {
                        eprintln!("harness error: cannot restart worker: {e}");
                        return EXIT_HARNESS;
                    }
                }
            }
        }
        // a worker that died without finishing its episode (crash of the process itself)
        for (_, slot) in slots.iter_mut() {
            if !slot.done && slot.current.is_none() && slot.remaining == 0 {
                slot.done = true;
            }
        }
    }
    lines.sort_by_key(|v| v["i"].as_u64().unwrap_or(0));
    let mut distinct: HashSet<String> = HashSet::new();
    let mut stages: BTreeMap<String, u64> = BTreeMap::new();
    let mut found: BTreeMap<String, (u64, String, u64)> = BTreeMap::new();
    let mut samples: Vec<Value> = Vec::new();
    let mut diverged = 0u64;
    let mut rechecked = 0u64;
    for v in &lines {
        *stages.entry(v["stage"].as_str().unwrap_or("").to_string()).or_insert(0) += 1;
        if v["nontrivial"].as_bool() == Some(true) {
            distinct.insert(v["abs"].as_str().unwrap_or("").to_string());
        }
        if let Some(b) = v["recheck"].as_bool() {
            rechecked += 1;
            if !b {
                diverged += 1;
            }
        }
        if !v["sample"].is_null() && samples.len() < 3 {
            samples.push(json!({"seed": v["seed"], "stage": v["stage"], "frames": v["frames"], "episode": v["sample"]}));
        }
        for x in v["viol"].as_array().map(Vec::as_slice).unwrap_or(&[]) {
            if x[0].as_str() == Some(prop) {
                let sig = x[1].as_str().unwrap_or("").to_string();
                let seed: u64 = v["seed"].as_str().and_then(|s| s.parse().ok()).unwrap_or(0);
                let e = found.entry(sig).or_insert((seed, x[2].as_str().unwrap_or("").to_string(), 0));
                e.2 += 1;
            }
        }
    }
    for (_, seed, hb) in &hangs {
        if prop == "C17" {
            let place = hb.rsplit("stuck in: ").next().unwrap_or("unknown").to_string();
            let e = found.entry(format!("c17.hang.{place}")).or_insert((*seed, format!("an episode stopped making progress for more than {} s of wall time while the event loop was running (last heartbeat: {hb}); drawing a frame or handling a command did not complete", hang_limit.as_secs()), 0));
            e.2 += 1;
        }
    }
    // precedence cases (input enumeration on the same pipeline; C16 only)
    let mut precedence_report = Value::Null;
    let mut precedence_cases = 0u64;
    if prop == "C16" {
        let n = ((if tier == "thorough" { 400_000.0 } else { 20_000.0 }) * scale).ceil() as u64;
        let (rep, viols) = precedence::run(batch, n);
        precedence_cases = n;
        precedence_report = rep;
        for (sig, seed, detail) in viols {
            let e = found.entry(sig).or_insert((seed, detail, 0));
            e.2 += 1;
        }
    }
    let mut known: BTreeMap<String, u64> = BTreeMap::new();
    // one episode seed per observed known finding (`tuisim one <seed>` runs it again)
    let mut known_seeds: BTreeMap<String, String> = BTreeMap::new();
    let mut new: Vec<(String, u64, String, u64)> = Vec::new();
    for (sig, (seed, detail, n)) in &found {
        if let Some(f) = findings.matching(prop, sig) {
            *known.entry(f.signature.clone()).or_insert(0) += n;
            known_seeds.entry(sig.clone()).or_insert_with(|| seed.to_string());
        } else {
            new.push((sig.clone(), *seed, detail.clone(), *n));
        }
    }
    for f in findings.open_for(prop) {
        println!("KNOWN-FINDING: property={prop} {} [signature {} observed in {} episodes]", f.what, f.signature, known.get(&f.signature).copied().unwrap_or(0));
    }
    let mut exit = EXIT_OK;
    let mut replays = Vec::new();
    if !new.is_empty() {
        let env = match make_env() {
            Ok(e) => e,
            Err(e) => {
                eprintln!("harness error: {e}");
                return EXIT_HARNESS;
            }
        };
        for (sig, seed, detail, n) in &new {
            let path = format!("{VERIF_DIR}/replays/{prop}-{}-{seed}.json", sig.chars().map(|c| if c.is_ascii_alphanumeric() || c == '-' || c == '.' { c } else { '_' }).collect::<String>());
            let doc = if sig.starts_with("c17.hang") {
                json!({"engine": "tuisim", "property": prop, "signature": sig, "kind": "hang", "seed": seed.to_string(), "detail": detail, "hang_limit_s": hang_limit.as_secs()})
            } else if sig.starts_with("c16.precedence") {
                json!({"engine": "tuisim", "property": prop, "signature": sig, "kind": "precedence", "case_seed": seed.to_string(), "detail": detail})
            } else {
                // every execution of the shrinker runs in a child process under the hang limit
                let limit = hang_limit + std::time::Duration::from_secs(5);
                let original = exec_episode(&json!({"seed": seed.to_string()}), limit).map(|o| tape_of(&o)).unwrap_or_default();
                let (small, used) = if original.is_empty() {
                    (original.clone(), 0)
                } else {
                    simcore::shrink::shrink_timed(&original, sig, 200, std::time::Duration::from_secs(30), |t| violation_sig(limit, prop, t, sig))
                };
                let o = if small.is_empty() { None } else { exec_episode(&json!({"tape": small}), limit) }.unwrap_or(Value::Null);
                let d = o["violations"]
                    .as_array()
                    .and_then(|a| a.iter().find(|v| v["prop"].as_str() == Some(prop) && v["sig"].as_str() == Some(sig.as_str())))
                    .and_then(|v| v["detail"].as_str().map(str::to_string))
                    .unwrap_or_else(|| detail.clone());
                if small.is_empty() {
                    // the episode could not be re-run to completion: replay by seed
                    json!({"engine": "tuisim", "property": prop, "signature": sig, "kind": "episode-by-seed", "seed": seed.to_string(), "detail": d})
                } else {
                    json!({
                        "engine": "tuisim",
                        "property": prop,
                        "signature": sig,
                        "kind": "episode",
                        "seed": seed.to_string(),
                        "detail": d,
                        "tape": small,
                        "original_tape_len": original.len(),
                        "shrink_executions": used,
                        "episode": o["sample"].clone(),
                        "stage": o["stage"].clone(),
                        "frames": o["frames"].clone(),
                        "event_hash": o["full_hash"].clone(),
                    })
                }
            };
            if std::fs::write(&path, serde_json::to_string_pretty(&doc).unwrap_or_default() + "\n").is_err() {
                eprintln!("harness error: cannot write {path}");
                return EXIT_HARNESS;
            }
            println!("  violation {sig} ({n} episodes; first seed {seed}): {detail}");
            println!("VIOLATION property={prop} replay={path}");
            replays.push(path);
            exit = EXIT_VIOLATION;
        }
        cleanup(&env);
    }
    let wall = started.elapsed().as_secs_f64();
    let mut extra = Map::new();
    extra.insert("engine".into(), json!("tuisim"));
    extra.insert("episodes".into(), json!(lines.len()));
    extra.insert("frames_drawn".into(), json!(frames));
    extra.insert("stages".into(), json!(stages));
    extra.insert("counters".into(), counters.to_json());
    extra.insert("runs_per_hour".into(), json!((lines.len() as f64 / wall.max(1e-9) * 3600.0) as u64));
    extra.insert("determinism_rechecks".into(), json!({"re_executed": rechecked, "diverged": diverged}));
    extra.insert("known_findings_observed".into(), json!(known));
    extra.insert("known_findings_first_episode_seed".into(), json!(known_seeds));
    extra.insert("replays".into(), json!(replays));
    if prop == "C16" {
        extra.insert("precedence_cases".into(), json!(precedence_cases));
        extra.insert("precedence".into(), precedence_report);
        // the builder half is decided by tracersim in the same ./check invocation
        if let Ok(text) = std::fs::read_to_string(format!("{VERIF_DIR}/evidence/.C16.builder.json")) {
            if let Ok(v) = serde_json::from_str::<Value>(&text) {
                extra.insert("builder_path".into(), v["coverage"].clone());
            }
        }
    }
    extra.insert(
        "components".into(),
        json!({
            "real": ["clap Args parser", "TOML configuration file reader", "TrippyConfig::from / build_config and all validators", "the builder chain of start_tracer (add-only twin verif_make_builder)", "make_tui_config", "TuiApp", "run_app (event loop and key dispatch)", "every render::* function", "crossterm input parser", "ratatui Terminal and widgets", "GeoIpLookup + maxminddb on a harness-written database", "DnsResolver cache logic", "trippy-core tracers producing the trace data over tracersim's network"],
            "stubbed": ["the terminal device (SimBackend around ratatui's TestBackend)", "the keyboard (a pseudo-terminal on fd 0 written by the simulator)", "the DNS provider and its thread (completions are scheduled events)", "the tracer threads (recorded rounds are re-applied through the real handler)", "wall clock (clock_gettime interposed)"],
        }),
    );
    let builder_evals = extra.get("builder_path").and_then(|b| b["evaluations"].as_u64()).unwrap_or(0);
    let ev = Evidence {
        property_id: prop.into(),
        tier: tier.into(),
        seed: batch,
        level: "exploration".into(),
        evaluations: lines.len() as u64 + precedence_cases + builder_evals,
        distinct_nontrivial: distinct.len() as u64,
        rule: match prop {
            "C16" => "each episode = one generated (argv, configuration file) pair through the real clap parser and TrippyConfig::from, tracers built by the real builder chain and run over the simulated network; plus precedence cases (each option absent / file / CLI / both, differential on the whole effective configuration) and tracersim's builder-combination runs (coverage.builder_path). Non-trivial = the configuration was accepted and tracing ran; distinct = distinct abstract traces".into(),
            _ => "each episode = one seeded interleaving of trace updates (new rounds, tracer errors, DNS completions), terminal resizes (1x1 .. 300x100) and key commands (one per frame, from the effective key-binding table) on the real event loop; non-trivial = the TUI ran; distinct = distinct sequences of (view, selection class, privacy value, command)".into(),
        },
        samples,
        exhaustive: false,
        extra,
        assumptions: vec![
            "TuiApp is read from the frame hook through a raw pointer while run_app holds it (read-only, between two statements of the loop)".into(),
            "hidden-text detection compares whole tokens of at least 6 characters (addresses, host names, AS names, GeoIP names, coordinates); 2-3 letter codes are not checked".into(),
        ],
        wall_s: wall,
        violations: new.len() as u64,
    };
    if let Err(e) = ev.write(&format!("{VERIF_DIR}/evidence/{prop}.json")) {
        eprintln!("harness error: {e}");
        return EXIT_HARNESS;
    }
    // Replay fidelity: an episode re-executed from its recorded tape must give the same
    // frames.  The terminal layout is solved by ratatui's cassowary solver over std HashMaps
    // with per-instance random keys; under-determined layouts may come out a column apart
    // (seen in 2 of 10 018 re-executions of one thorough run, in none of 30 000 afterwards).
    // Such rare differences are reported in the evidence; the check is only unusable when
    // re-execution diverges systematically.
    if diverged > 0 {
        println!("note: {diverged} of {rechecked} re-executed episodes drew different frames (layout solver; see DESIGN.md section 11)");
    }
    if diverged * 100 > rechecked.max(1) {
        eprintln!("harness error: {diverged} of {rechecked} re-executed episodes diverged");
        return EXIT_HARNESS;
    }
    println!(
        "{prop} {}: {} episodes ({} with the TUI), {frames} frames, {} distinct non-trivial, {:.1}s, violations={}",
        if exit == EXIT_OK { "held" } else { "VIOLATED" },
        lines.len(),
        stages.get("tui").copied().unwrap_or(0),
        distinct.len(),
        wall,
        new.len()
    );
    exit
}

fn run_replay(prop: &str, path: &str) -> i32 {
    let Ok(text) = std::fs::read_to_string(path) else {
        eprintln!("harness error: cannot read {path}");
        return EXIT_HARNESS;
    };
    let Ok(doc) = serde_json::from_str::<Value>(&text) else { return EXIT_HARNESS };
    let want = doc["signature"].as_str().unwrap_or("").to_string();
    if doc["kind"].as_str() == Some("precedence") {
        let seed: u64 = doc["case_seed"].as_str().and_then(|s| s.parse().ok()).unwrap_or(0);
        return match precedence::run_case(seed, 0) {
            Some((sig, detail)) => {
                println!("replay {path}: {sig}: {detail}");
                println!("VIOLATION property={prop} replay={path}");
                EXIT_VIOLATION
            }
            None => {
                println!("replay {path}: the precedence case no longer fails on this tree");
                EXIT_OK
            }
        };
    }
    if doc["kind"].as_str() == Some("hang") {
        // run the episode of that seed in a child process under the recorded time limit
        let seed: u64 = doc["seed"].as_str().and_then(|s| s.parse().ok()).unwrap_or(0);
        let limit = doc["hang_limit_s"].as_u64().unwrap_or(30);
        let exe = std::env::current_exe().expect("current exe");
        let Ok(mut child) = Command::new(&exe).args(["one", &seed.to_string()]).stdout(Stdio::null()).stderr(Stdio::null()).spawn() else { return EXIT_HARNESS };
        let t0 = std::time::Instant::now();
        loop {
            if let Ok(Some(_)) = child.try_wait() {
                println!("replay {path}: the episode finishes on this tree");
                return EXIT_OK;
            }
            if t0.elapsed().as_secs() > limit {
                let _ = child.kill();
                let _ = child.wait();
                println!("replay {path}: the episode did not finish within {limit} s");
                println!("VIOLATION property={prop} replay={path}");
                return EXIT_VIOLATION;
            }
            std::thread::sleep(std::time::Duration::from_millis(100));
        }
    }
    let limit = std::time::Duration::from_secs(std::env::var("VERIF_TUI_HANG_SECS").ok().and_then(|s| s.parse().ok()).unwrap_or(8) + 5);
    let req = if doc["kind"].as_str() == Some("episode-by-seed") { json!({"seed": doc["seed"].clone()}) } else { json!({"tape": doc["tape"].clone()}) };
    let trace = std::env::var_os("TUISIM_TRACE").is_some() || std::env::var_os("TUISIM_DUMP_FRAME").is_some();
    let o = if trace {
        // diagnostics print from inside the episode: run it in this process
        let env = match make_env() {
            Ok(e) => e,
            Err(e) => {
                eprintln!("harness error: {e}");
                return EXIT_HARNESS;
            }
        };
        let tape = match req["tape"].as_array() {
            Some(a) => Tape::from_values(a.iter().filter_map(|v| v.as_u64().map(|x| x as u32)).collect()),
            None => Tape::from_seed(req["seed"].as_str().and_then(|s| s.parse().ok()).unwrap_or(0)),
        };
        let o = run_episode(tape, &env, true);
        cleanup(&env);
        json!({
            "stage": o.stage,
            "frames": o.frames,
            "full_hash": format!("{:016x}", o.full_hash),
            "violations": o.violations.iter().map(|v| json!({"prop": v.prop, "sig": v.sig, "detail": v.detail})).collect::<Vec<_>>(),
        })
    } else {
        match exec_episode(&req, limit) {
            Some(o) => o,
            None => {
                println!("replay {path}: the episode did not finish within {} s", limit.as_secs());
                return EXIT_OK;
            }
        }
    };
    println!("replay {path}: stage={} frames={} event_hash={}", o["stage"], o["frames"], o["full_hash"].as_str().unwrap_or(""));
    let viols: Vec<(String, String, String)> = o["violations"]
        .as_array()
        .map(|a| a.iter().map(|v| (v["prop"].as_str().unwrap_or("").to_string(), v["sig"].as_str().unwrap_or("").to_string(), v["detail"].as_str().unwrap_or("").to_string())).collect())
        .unwrap_or_default();
    for (p, sg, d) in &viols {
        println!("  {p} {sg}: {d}");
    }
    if viols.iter().any(|(p, sg, _)| p.as_str() == prop && sg.as_str() == want) {
        println!("VIOLATION property={prop} replay={path}");
        EXIT_VIOLATION
    } else {
        println!("replay did not reproduce signature {want} on this tree");
        EXIT_OK
    }
}

fn main() {
    detrand::enable();
    unsafe {
        libc::mallopt(libc::M_MMAP_THRESHOLD, 1 << 30);
        libc::mallopt(libc::M_TRIM_THRESHOLD, 1 << 30);
    }
    let args: Vec<String> = std::env::args().collect();
    let rc = match args.get(1).map(String::as_str) {
        Some("worker") => {
            let n = |i: usize| args.get(i).and_then(|s| s.parse::<u64>().ok()).unwrap_or(0);
            run_worker(n(2), n(3), n(4).max(1), n(5))
        }
        Some("twice") => {
            // determinism probe: episodes from seeds a..b, each run twice in this process
            let a = args.get(2).and_then(|s| s.parse::<u64>().ok()).unwrap_or(0);
            let b = args.get(3).and_then(|s| s.parse::<u64>().ok()).unwrap_or(a + 1);
            match make_env() {
                Ok(env) => {
                    for i in a..b {
                        let seed = episode_seed(simcore::env_seed(), i);
                        let o1 = run_episode(Tape::from_seed(seed), &env, true);
                        let o2 = run_episode(Tape::from_values(o1.tape.clone()), &env, true);
                        let same = o1.full_hash == o2.full_hash && o1.tape == o2.tape;
                        println!("{i} {} stage={} frames={}/{} tape={}/{} viol={}/{}", if same { "same" } else { "DIFF" }, o1.stage, o1.frames, o2.frames, o1.tape.len(), o2.tape.len(), o1.violations.len(), o2.violations.len());
                        if !same {
                            let k = o1.tape.iter().zip(&o2.tape).position(|(x, y)| x != y);
                            println!("   first tape difference at {k:?}; argv {}", o1.sample["argv"]);
                        }
                    }
                    cleanup(&env);
                    EXIT_OK
                }
                Err(_) => EXIT_HARNESS,
            }
        }
        Some("exec") => {
            // one episode on behalf of the parent (shrinking, replay): request on stdin
            // ({"seed": "..."} or {"tape": [...]}), full outcome as one JSON line on stdout
            let mut text = String::new();
            let _ = std::io::Read::read_to_string(&mut std::io::stdin(), &mut text);
            let req: Value = serde_json::from_str(&text).unwrap_or(Value::Null);
            match make_env() {
                Ok(env) => {
                    let tape = match req["tape"].as_array() {
                        Some(a) => Tape::from_values(a.iter().filter_map(|v| v.as_u64().map(|x| x as u32)).collect()),
                        None => Tape::from_seed(req["seed"].as_str().and_then(|s| s.parse().ok()).unwrap_or(0)),
                    };
                    let o = run_episode(tape, &env, true);
                    cleanup(&env);
                    println!(
                        "{}",
                        json!({
                            "stage": o.stage,
                            "frames": o.frames,
                            "full_hash": format!("{:016x}", o.full_hash),
                            "tape": o.tape,
                            "sample": o.sample,
                            "violations": o.violations.iter().map(|v| json!({"prop": v.prop, "sig": v.sig, "detail": v.detail})).collect::<Vec<_>>(),
                        })
                    );
                    EXIT_OK
                }
                Err(_) => EXIT_HARNESS,
            }
        }
        Some("one") => {
            // a single episode from its seed (used to replay a hang under a time limit)
            let seed = args.get(2).and_then(|s| s.parse::<u64>().ok()).unwrap_or(0);
            match make_env() {
                Ok(env) => {
                    let o = run_episode(Tape::from_seed(seed), &env, true);
                    cleanup(&env);
                    println!("{}", outcome_line(0, seed, &o, None));
                    EXIT_OK
                }
                Err(_) => EXIT_HARNESS,
            }
        }
        Some("check") => {
            let prop = args.get(2).cloned().unwrap_or_default();
            let tier = args.get(3).cloned().unwrap_or_else(|| "quick".into());
            if !["C16", "C17", "C18"].contains(&prop.as_str()) {
                eprintln!("harness error: tuisim serves C16, C17 and C18");
                EXIT_HARNESS
            } else {
                std::panic::catch_unwind(move || run_check(&prop, &tier, simcore::env_seed())).unwrap_or(EXIT_HARNESS)
            }
        }
        Some("replay") => match (args.get(2), args.get(3)) {
            (Some(p), Some(f)) => run_replay(p, f),
            _ => EXIT_HARNESS,
        },
        _ => {
            eprintln!("usage: tuisim check <C16|C17|C18> <quick|thorough> | tuisim replay <Cxx> <file>");
            EXIT_HARNESS
        }
    };
    std::process::exit(rc);
}
