//! Generated command lines and configuration files for the real configuration pipeline
//! (`Args` via clap, the TOML file reader, `TrippyConfig::from`), and the option table the
//! precedence check enumerates.

use simcore::Tape;

/// How an option is written.
#[derive(Debug, Clone, Copy, PartialEq, Eq)]
pub enum Kind {
    /// `--name value` / `key = "value"`.
    Str,
    /// `--name value` / `key = value` (bare number).
    Num,
    /// `--name` (presence) / `key = true|false`.
    Flag,
}

/// One option of the table.
#[derive(Debug, Clone, Copy)]
pub struct Opt {
    pub name: &'static str,
    pub section: &'static str,
    pub kind: Kind,
    /// Candidate values (all individually valid).
    pub values: &'static [&'static str],
    /// The documented default, as the literal one would type.
    pub default: &'static str,
}

pub const OPTS: &[Opt] = &[
    Opt { name: "mode", section: "trippy", kind: Kind::Str, values: &["tui", "stream", "pretty", "markdown", "csv", "json", "silent"], default: "tui" },
    Opt { name: "unprivileged", section: "trippy", kind: Kind::Flag, values: &["true", "false"], default: "false" },
    Opt { name: "log-format", section: "trippy", kind: Kind::Str, values: &["compact", "pretty", "json", "chrome"], default: "pretty" },
    Opt { name: "log-filter", section: "trippy", kind: Kind::Str, values: &["trippy=debug", "trippy=trace", "info"], default: "trippy=debug" },
    Opt { name: "log-span-events", section: "trippy", kind: Kind::Str, values: &["off", "active", "full"], default: "off" },
    Opt { name: "protocol", section: "strategy", kind: Kind::Str, values: &["icmp", "udp", "tcp"], default: "icmp" },
    Opt { name: "addr-family", section: "strategy", kind: Kind::Str, values: &["ipv4", "ipv6", "ipv6-then-ipv4", "ipv4-then-ipv6", "system"], default: "ipv4-then-ipv6" },
    Opt { name: "target-port", section: "strategy", kind: Kind::Num, values: &["80", "443", "33434", "5000"], default: "" },
    Opt { name: "source-port", section: "strategy", kind: Kind::Num, values: &["1025", "5000", "33000", "65535"], default: "" },
    Opt { name: "min-round-duration", section: "strategy", kind: Kind::Str, values: &["50ms", "250ms", "1s"], default: "1s" },
    Opt { name: "max-round-duration", section: "strategy", kind: Kind::Str, values: &["1s", "2s", "1500ms"], default: "1s" },
    Opt { name: "grace-duration", section: "strategy", kind: Kind::Str, values: &["10ms", "100ms", "300ms", "1s"], default: "100ms" },
    Opt { name: "initial-sequence", section: "strategy", kind: Kind::Num, values: &["0", "33434", "50000", "64511"], default: "33434" },
    Opt { name: "multipath-strategy", section: "strategy", kind: Kind::Str, values: &["classic", "paris", "dublin"], default: "classic" },
    Opt { name: "max-inflight", section: "strategy", kind: Kind::Num, values: &["1", "8", "24", "255"], default: "24" },
    Opt { name: "first-ttl", section: "strategy", kind: Kind::Num, values: &["1", "2", "5"], default: "1" },
    Opt { name: "max-ttl", section: "strategy", kind: Kind::Num, values: &["10", "30", "64", "254"], default: "64" },
    Opt { name: "packet-size", section: "strategy", kind: Kind::Num, values: &["28", "40", "48", "84", "500", "1024"], default: "84" },
    Opt { name: "payload-pattern", section: "strategy", kind: Kind::Num, values: &["0", "42", "255"], default: "0" },
    Opt { name: "tos", section: "strategy", kind: Kind::Num, values: &["0", "16", "224", "255"], default: "0" },
    Opt { name: "icmp-extensions", section: "strategy", kind: Kind::Flag, values: &["true", "false"], default: "false" },
    Opt { name: "read-timeout", section: "strategy", kind: Kind::Str, values: &["10ms", "20ms", "100ms"], default: "10ms" },
    Opt { name: "max-samples", section: "strategy", kind: Kind::Num, values: &["1", "16", "256", "1000"], default: "256" },
    Opt { name: "max-flows", section: "strategy", kind: Kind::Num, values: &["1", "2", "8", "64"], default: "64" },
    Opt { name: "dns-resolve-method", section: "dns", kind: Kind::Str, values: &["system", "resolv", "google", "cloudflare"], default: "system" },
    Opt { name: "dns-resolve-all", section: "dns", kind: Kind::Flag, values: &["true", "false"], default: "false" },
    Opt { name: "dns-lookup-as-info", section: "dns", kind: Kind::Flag, values: &["true", "false"], default: "false" },
    Opt { name: "dns-timeout", section: "dns", kind: Kind::Str, values: &["1s", "5s", "250ms"], default: "5s" },
    Opt { name: "dns-ttl", section: "dns", kind: Kind::Str, values: &["300s", "10s", "1h"], default: "300s" },
    Opt { name: "report-cycles", section: "report", kind: Kind::Num, values: &["1", "10", "25"], default: "10" },
    Opt { name: "tui-address-mode", section: "tui", kind: Kind::Str, values: &["ip", "host", "both"], default: "host" },
    Opt { name: "tui-as-mode", section: "tui", kind: Kind::Str, values: &["asn", "prefix", "country-code", "registry", "allocated", "name"], default: "asn" },
    Opt { name: "tui-icmp-extension-mode", section: "tui", kind: Kind::Str, values: &["off", "mpls", "full", "all"], default: "off" },
    Opt { name: "tui-geoip-mode", section: "tui", kind: Kind::Str, values: &["off", "short", "long", "location"], default: "off" },
    Opt { name: "tui-max-addrs", section: "tui", kind: Kind::Num, values: &["0", "1", "3", "255"], default: "0" },
    Opt { name: "tui-preserve-screen", section: "tui", kind: Kind::Flag, values: &["true", "false"], default: "false" },
    Opt { name: "tui-refresh-rate", section: "tui", kind: Kind::Str, values: &["50ms", "100ms", "1s"], default: "100ms" },
    Opt { name: "tui-privacy-max-ttl", section: "tui", kind: Kind::Num, values: &["0", "1", "3", "20"], default: "" },
    Opt { name: "tui-custom-columns", section: "tui", kind: Kind::Str, values: &["holsravbwdt", "hosr", "holsravbwdtjgxiSPQTCNfFBDKM", "ho", "hlsravbwdt", "h", "oNKM"], default: "holsravbwdt" },
    Opt { name: "tui-timezone", section: "tui", kind: Kind::Str, values: &["UTC", "Europe/Berlin", "Asia/Tokyo"], default: "" },
    // "@GEO@" stands for the database the harness wrote (see `geoip_file`)
    Opt { name: "geoip-mmdb-file", section: "tui", kind: Kind::Str, values: &["@GEO@", "/nonexistent/tuisim-other.mmdb"], default: "" },
    Opt { name: "tui-locale", section: "tui", kind: Kind::Str, values: &["en", "fr", "de", "zh", "es"], default: "" },
    Opt { name: "source-address", section: "strategy", kind: Kind::Str, values: &["192.0.2.1", "192.0.2.77", "2001:db8:1::1"], default: "" },
    Opt { name: "interface", section: "strategy", kind: Kind::Str, values: &["eth0", "sim0"], default: "" },
];

/// Where an option is given in one generated configuration.
#[derive(Debug, Clone, PartialEq, Eq, Default)]
pub struct Given {
    pub cli: Option<String>,
    pub file: Option<String>,
}

/// A generated configuration: per option of `OPTS` where it is given, plus targets.
#[derive(Debug, Clone, PartialEq, Eq)]
pub struct GenConfig {
    pub given: Vec<Given>,
    pub targets: Vec<String>,
    /// Use the `--udp`/`--tcp`/`--icmp` and `-4`/`-6` shortcut flags where they apply.
    pub shortcuts: bool,
    pub geoip_file: Option<String>,
    pub theme_cli: Vec<(String, String)>,
    pub theme_file: Vec<(String, String)>,
    pub bindings_cli: Vec<(String, String)>,
    pub bindings_file: Vec<(String, String)>,
}

#[must_use]
pub fn opt_index(name: &str) -> usize {
    OPTS.iter().position(|o| o.name == name).expect("known option")
}

impl GenConfig {
    #[must_use]
    pub fn empty(targets: Vec<String>) -> Self {
        Self {
            given: vec![Given::default(); OPTS.len()],
            targets,
            shortcuts: false,
            geoip_file: None,
            theme_cli: Vec::new(),
            theme_file: Vec::new(),
            bindings_cli: Vec::new(),
            bindings_file: Vec::new(),
        }
    }

    /// The command line (argv[0] included); `cfg_path` names the file written from `toml()`.
    #[must_use]
    pub fn argv(&self, cfg_path: &str) -> Vec<String> {
        let mut v = vec!["trip".to_string()];
        v.push("-c".into());
        v.push(cfg_path.to_string());
        for (o, g) in OPTS.iter().zip(&self.given) {
            let Some(val) = &g.cli else { continue };
            match o.kind {
                Kind::Flag => {
                    if val == "true" {
                        v.push(format!("--{}", o.name));
                    }
                }
                _ => {
                    if self.shortcuts && o.name == "protocol" {
                        v.push(format!("--{val}"));
                    } else if self.shortcuts && o.name == "addr-family" && (val == "ipv4" || val == "ipv6") {
                        v.push(if val == "ipv4" { "-4".into() } else { "-6".into() });
                    } else {
                        v.push(format!("--{}", o.name));
                        v.push(self.subst(val));
                    }
                }
            }
        }
        if !self.theme_cli.is_empty() {
            v.push("--tui-theme-colors".into());
            v.push(self.theme_cli.iter().map(|(k, c)| format!("{k}={c}")).collect::<Vec<_>>().join(","));
        }
        if !self.bindings_cli.is_empty() {
            v.push("--tui-key-bindings".into());
            v.push(self.bindings_cli.iter().map(|(k, c)| format!("{k}={c}")).collect::<Vec<_>>().join(","));
        }
        v.extend(self.targets.iter().cloned());
        v
    }

    fn subst(&self, val: &str) -> String {
        if val == "@GEO@" {
            self.geoip_file.clone().unwrap_or_else(|| "/nonexistent/tuisim.mmdb".to_string())
        } else {
            val.to_string()
        }
    }

    /// The configuration file.
    #[must_use]
    pub fn toml(&self) -> String {
        let mut out = String::new();
        for section in ["trippy", "strategy", "dns", "report", "tui"] {
            let mut body = String::new();
            for (o, g) in OPTS.iter().zip(&self.given) {
                if o.section != section {
                    continue;
                }
                let Some(val) = &g.file else { continue };
                match o.kind {
                    Kind::Str => body.push_str(&format!("{} = \"{}\"\n", o.name, self.subst(val))),
                    Kind::Num | Kind::Flag => body.push_str(&format!("{} = {}\n", o.name, val)),
                }
            }
            if !body.is_empty() {
                out.push_str(&format!("[{section}]\n{body}"));
            }
        }
        if !self.theme_file.is_empty() {
            out.push_str("[theme-colors]\n");
            for (k, c) in &self.theme_file {
                out.push_str(&format!("{k} = \"{c}\"\n"));
            }
        }
        if !self.bindings_file.is_empty() {
            out.push_str("[bindings]\n");
            for (k, c) in &self.bindings_file {
                out.push_str(&format!("{k} = \"{c}\"\n"));
            }
        }
        out
    }
}

const THEME_ITEMS: &[&str] = &["bg-color", "text-color", "hops-table-header-bg-color", "info-bar-bg-color", "map-world-color"];
pub const COLORS: &[&str] = &["black", "red", "green", "blue", "white", "darkgray", "00ff7f"];
const BINDABLE: &[&str] = &["toggle-help", "next-hop", "toggle-chart", "expand-privacy", "toggle-flows", "quit"];
pub const KEYS: &[&str] = &["x", "y", "w", "j", "ctrl+t", "shift+g", "tab", "pagedown"];

/// Draw a configuration: a few options on the command line, a few in the file, values
/// chosen to be valid together most of the time.
pub fn gen_config(t: &mut Tape, targets: Vec<String>, geoip_file: Option<&str>, tui_bias: bool) -> GenConfig {
    let mut c = GenConfig::empty(targets);
    c.shortcuts = t.chance(300);
    let density = 50 + t.draw(250);
    for (i, o) in OPTS.iter().enumerate() {
        // 0 = absent (the simplest choice), then file, cli, both
        let place = if t.chance(density) { 1 + t.draw(3) } else { 0 };
        let pick = |t: &mut Tape| o.values[t.pick(o.values.len())].to_string();
        match place {
            1 => c.given[i].file = Some(pick(t)),
            2 => c.given[i].cli = Some(pick(t)),
            3 => {
                c.given[i].file = Some(pick(t));
                c.given[i].cli = Some(pick(t));
            }
            _ => {}
        }
    }
    // keep most configurations runnable: the interdependent options are repaired in 80 %
    // of the draws (the other 20 % exercise the validators)
    if t.chance(800) {
        repair(&mut c, tui_bias);
    }
    c.geoip_file = geoip_file.map(str::to_string);
    let gi = opt_index("geoip-mmdb-file");
    if geoip_file.is_some() && c.given[gi] == Given::default() && t.chance(500) {
        // most traces with a database name it once, on the command line
        c.given[gi].cli = Some("@GEO@".to_string());
    }
    // a geoip mode other than off needs a database file
    if effective(&c, "geoip-mmdb-file").is_none() {
        let i = opt_index("tui-geoip-mode");
        c.given[i] = Given::default();
    }
    let n = t.weighted(&[70, 20, 10]);
    for _ in 0..n {
        let item = (THEME_ITEMS[t.pick(THEME_ITEMS.len())].to_string(), COLORS[t.pick(COLORS.len())].to_string());
        if t.chance(500) {
            if !c.theme_cli.iter().any(|(k, _)| *k == item.0) {
                c.theme_cli.push(item);
            }
        } else if !c.theme_file.iter().any(|(k, _)| *k == item.0) {
            c.theme_file.push(item);
        }
    }
    if t.chance(150) {
        let item = (BINDABLE[t.pick(BINDABLE.len())].to_string(), KEYS[t.pick(KEYS.len())].to_string());
        if t.chance(500) {
            c.bindings_cli.push(item);
        } else {
            c.bindings_file.push(item);
        }
    }
    c
}

fn effective<'a>(c: &'a GenConfig, name: &str) -> Option<&'a str> {
    let i = opt_index(name);
    c.given[i].cli.as_deref().or(c.given[i].file.as_deref())
}

fn set_both(c: &mut GenConfig, name: &str, val: &str) {
    let i = opt_index(name);
    let g = &mut c.given[i];
    if g.cli.is_some() {
        g.cli = Some(val.to_string());
    }
    if g.file.is_some() {
        g.file = Some(val.to_string());
    }
}

fn clear(c: &mut GenConfig, name: &str) {
    let i = opt_index(name);
    c.given[i] = Given::default();
}

/// Make the interdependent options consistent (what a user who reads the manual would do).
fn repair(c: &mut GenConfig, tui_bias: bool) {
    if tui_bias {
        clear(c, "mode");
    }
    if effective(c, "source-address").is_some() && effective(c, "interface").is_some() {
        clear(c, "interface");
    }
    let proto = effective(c, "protocol").unwrap_or("icmp").to_string();
    let strat = effective(c, "multipath-strategy").unwrap_or("classic").to_string();
    if strat != "classic" && proto != "udp" {
        clear(c, "multipath-strategy");
    }
    let strat = effective(c, "multipath-strategy").unwrap_or("classic").to_string();
    if effective(c, "unprivileged") == Some("true") && strat != "classic" {
        clear(c, "unprivileged");
    }
    // both ports only for udp paris / dublin; no ports at all for icmp
    if proto == "icmp" {
        clear(c, "target-port");
        clear(c, "source-port");
    } else if effective(c, "target-port").is_some() && effective(c, "source-port").is_some() && !(proto == "udp" && strat != "classic") {
        clear(c, "source-port");
    }
    // min <= max round duration
    if effective(c, "min-round-duration") == Some("1s") && effective(c, "max-round-duration").is_some_and(|m| m == "1s") {
        // fine
    } else if effective(c, "min-round-duration").is_some() && effective(c, "max-round-duration").is_none() {
        // max defaults to 1s: every candidate minimum is <= 1s
    }
    // first <= max ttl holds for all candidate pairs (first <= 5, max >= 10)
    // multiple targets only in tui mode; as-info needs a non-system resolver
    if effective(c, "dns-lookup-as-info") == Some("true") && effective(c, "dns-resolve-method").map_or(true, |m| m == "system") {
        clear(c, "dns-lookup-as-info");
    }
    // packet size must suit the family
    if effective(c, "packet-size") == Some("48") && effective(c, "addr-family").map_or(true, |f| f != "ipv6") {
        set_both(c, "packet-size", "84");
    }
    // verbose logging is never switched on, so log options have no further constraints
}

/// The documented default of every theme item (`[theme-colors]` of the sample configuration
/// file and the reference documentation), pinned here.
pub const THEME_DEFAULTS: &[(&str, &str)] = &[
    ("bg-color", "black"),
    ("border-color", "gray"),
    ("text-color", "gray"),
    ("tab-text-color", "green"),
    ("hops-table-header-bg-color", "white"),
    ("hops-table-header-text-color", "black"),
    ("hops-table-row-active-text-color", "gray"),
    ("hops-table-row-inactive-text-color", "darkgray"),
    ("hops-chart-selected-color", "green"),
    ("hops-chart-unselected-color", "gray"),
    ("hops-chart-axis-color", "darkgray"),
    ("frequency-chart-bar-color", "green"),
    ("frequency-chart-text-color", "gray"),
    ("flows-chart-bar-selected-color", "green"),
    ("flows-chart-bar-unselected-color", "darkgray"),
    ("flows-chart-text-current-color", "lightgreen"),
    ("flows-chart-text-non-current-color", "white"),
    ("samples-chart-color", "yellow"),
    ("samples-chart-lost-color", "red"),
    ("help-dialog-bg-color", "blue"),
    ("help-dialog-text-color", "gray"),
    ("settings-dialog-bg-color", "blue"),
    ("settings-tab-text-color", "green"),
    ("settings-table-header-text-color", "black"),
    ("settings-table-header-bg-color", "white"),
    ("settings-table-row-text-color", "gray"),
    ("map-world-color", "white"),
    ("map-radius-color", "yellow"),
    ("map-selected-color", "green"),
    ("map-info-panel-border-color", "gray"),
    ("map-info-panel-bg-color", "black"),
    ("map-info-panel-text-color", "gray"),
    ("info-bar-bg-color", "white"),
    ("info-bar-text-color", "black"),
];

/// The documented default key of every command (`[bindings]`), pinned here.
pub const BINDING_DEFAULTS: &[(&str, &str)] = &[
    ("toggle-help", "h"),
    ("toggle-help-alt", "?"),
    ("toggle-settings", "s"),
    ("toggle-settings-tui", "1"),
    ("toggle-settings-trace", "2"),
    ("toggle-settings-dns", "3"),
    ("toggle-settings-geoip", "4"),
    ("toggle-settings-bindings", "5"),
    ("toggle-settings-theme", "6"),
    ("toggle-settings-columns", "7"),
    ("next-hop", "down"),
    ("previous-hop", "up"),
    ("next-trace", "right"),
    ("previous-trace", "left"),
    ("next-hop-address", "."),
    ("previous-hop-address", ","),
    ("address-mode-ip", "i"),
    ("address-mode-host", "n"),
    ("address-mode-both", "b"),
    ("toggle-freeze", "ctrl+f"),
    ("toggle-chart", "c"),
    ("toggle-map", "m"),
    ("toggle-flows", "f"),
    ("expand-privacy", "p"),
    ("contract-privacy", "o"),
    ("expand-hosts", "]"),
    ("expand-hosts-max", "}"),
    ("contract-hosts", "["),
    ("contract-hosts-min", "{"),
    ("chart-zoom-in", "="),
    ("chart-zoom-out", "-"),
    ("clear-trace-data", "ctrl+r"),
    ("clear-dns-cache", "ctrl+k"),
    ("clear-selection", "esc"),
    ("toggle-as-info", "z"),
    ("toggle-hop-details", "d"),
    ("quit", "q"),
    ("quit-preserve-screen", "shift+q"),
];
