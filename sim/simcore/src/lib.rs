//! Shared machinery of the deterministic simulators: decision tape, PRNG, shrinker,
//! replay files, evidence writer, known-findings matcher and the worker pool.
//!
//! Nothing in here reads a clock or an OS random source on a path that influences a run.

pub mod evidence;
pub mod findings;
pub mod pool;
pub mod shrink;
pub mod tape;

pub use tape::{mix64, Rng, Tape};

/// Default batch seed when `VERIF_SEED` is not given.
pub const DEFAULT_SEED: u64 = 20_261_001;

/// Exit codes of every check binary.
pub const EXIT_OK: i32 = 0;
pub const EXIT_VIOLATION: i32 = 1;
pub const EXIT_HARNESS: i32 = 2;

/// Read `VERIF_SEED` (decimal) or fall back to the fixed default.
#[must_use]
pub fn env_seed() -> u64 {
    std::env::var("VERIF_SEED")
        .ok()
        .and_then(|s| s.trim().parse::<u64>().ok())
        .unwrap_or(DEFAULT_SEED)
}

/// FNV-1a over bytes; used for event-log hashes and abstract-trace hashes.
#[must_use]
pub fn fnv1a(bytes: &[u8]) -> u64 {
    let mut h: u64 = 0xcbf2_9ce4_8422_2325;
    for b in bytes {
        h ^= u64::from(*b);
        h = h.wrapping_mul(0x0000_0100_0000_01b3);
    }
    h
}

/// Incremental FNV-1a hasher.
#[derive(Clone, Copy, Debug)]
pub struct Fnv(pub u64);

impl Default for Fnv {
    fn default() -> Self {
        Self(0xcbf2_9ce4_8422_2325)
    }
}

impl Fnv {
    pub fn u8(&mut self, v: u8) {
        self.0 ^= u64::from(v);
        self.0 = self.0.wrapping_mul(0x0000_0100_0000_01b3);
    }
    pub fn u64(&mut self, v: u64) {
        for b in v.to_le_bytes() {
            self.u8(b);
        }
    }
    pub fn bytes(&mut self, v: &[u8]) {
        for b in v {
            self.u8(*b);
        }
    }
    #[must_use]
    pub fn finish(self) -> u64 {
        self.0
    }
}

/// The seed of run `i` of property `prop` in a batch seeded with `batch`.
#[must_use]
pub fn run_seed(batch: u64, prop: &str, family: u32, i: u64) -> u64 {
    let p = fnv1a(prop.as_bytes());
    mix64(mix64(batch ^ p).wrapping_add(u64::from(family)).wrapping_mul(0x9E37_79B9_7F4A_7C15) ^ mix64(i))
}

/// The verification root: where `evidence/`, `replays/` and `known-findings.jsonl` live.
/// `VERIF_DIR` if set, else the current directory when it looks like the root (the check
/// script changes into it), else `/verif`.
#[must_use]
pub fn verif_dir() -> String {
    if let Ok(d) = std::env::var("VERIF_DIR") {
        return d;
    }
    if let Ok(cwd) = std::env::current_dir() {
        if cwd.join("properties.jsonl").exists() {
            return cwd.display().to_string();
        }
    }
    "/verif".to_string()
}
