//! Evidence writer (`/verif/evidence/<id>.json`, schema `/root/.vp/EVIDENCE.schema.json`).

use serde_json::{json, Map, Value};
use std::collections::BTreeMap;

/// Counters merged across runs (all sums).
#[derive(Debug, Clone, Default)]
pub struct Counters(pub BTreeMap<String, u64>);

impl Counters {
    pub fn add(&mut self, key: &str, n: u64) {
        if n > 0 {
            *self.0.entry(key.to_string()).or_insert(0) += n;
        } else {
            self.0.entry(key.to_string()).or_insert(0);
        }
    }
    pub fn merge(&mut self, other: &Self) {
        for (k, v) in &other.0 {
            *self.0.entry(k.clone()).or_insert(0) += *v;
        }
    }
    #[must_use]
    pub fn get(&self, key: &str) -> u64 {
        self.0.get(key).copied().unwrap_or(0)
    }
    #[must_use]
    pub fn to_json(&self) -> Value {
        let mut m = Map::new();
        for (k, v) in &self.0 {
            m.insert(k.clone(), json!(v));
        }
        Value::Object(m)
    }
}

/// Everything a check reports about one run of itself.
#[derive(Debug, Clone)]
pub struct Evidence {
    pub property_id: String,
    pub tier: String,
    pub seed: u64,
    pub level: String,
    pub evaluations: u64,
    pub distinct_nontrivial: u64,
    pub rule: String,
    pub samples: Vec<Value>,
    pub exhaustive: bool,
    pub extra: Map<String, Value>,
    pub assumptions: Vec<String>,
    pub wall_s: f64,
    pub violations: u64,
}

impl Evidence {
    #[must_use]
    pub fn to_json(&self) -> Value {
        let mut coverage = Map::new();
        coverage.insert("evaluations".into(), json!(self.evaluations));
        coverage.insert("distinct_nontrivial".into(), json!(self.distinct_nontrivial));
        coverage.insert("rule".into(), json!(self.rule));
        coverage.insert("samples".into(), Value::Array(self.samples.clone()));
        if self.exhaustive {
            coverage.insert("exhaustive".into(), json!(true));
        }
        for (k, v) in &self.extra {
            coverage.insert(k.clone(), v.clone());
        }
        json!({
            "property_id": self.property_id,
            "tier": self.tier,
            "seed": self.seed,
            "level": self.level,
            "coverage": Value::Object(coverage),
            "assumptions": self.assumptions,
            "wall_s": self.wall_s,
            "violations": self.violations,
        })
    }

    /// Write atomically (temp file + rename).
    pub fn write(&self, path: &str) -> Result<(), String> {
        let text = serde_json::to_string_pretty(&self.to_json()).map_err(|e| e.to_string())?;
        if let Some(dir) = std::path::Path::new(path).parent() {
            std::fs::create_dir_all(dir).map_err(|e| e.to_string())?;
        }
        let tmp = format!("{path}.tmp.{}", std::process::id());
        std::fs::write(&tmp, text + "\n").map_err(|e| format!("{tmp}: {e}"))?;
        std::fs::rename(&tmp, path).map_err(|e| format!("{path}: {e}"))
    }
}
