//! Tape shrinker: delete blocks, zero blocks, lower single values, keeping a candidate
//! only when the same violation signature recurs.

/// Shrink `tape` under `test`, which returns the violation signature of a run (or `None`
/// when the run is clean).  A candidate is kept iff its signature equals `want`.
/// `budget` bounds the number of re-executions.
pub fn shrink<F>(tape: &[u32], want: &str, budget: usize, test: F) -> (Vec<u32>, usize)
where
    F: FnMut(&[u32]) -> Option<String>,
{
    shrink_timed(tape, want, budget, std::time::Duration::from_secs(3600), test)
}

/// As `shrink`, additionally bounded by wall-clock time (the bound only limits how far the
/// minimisation gets, never what is reported).
pub fn shrink_timed<F>(tape: &[u32], want: &str, budget: usize, limit: std::time::Duration, mut test: F) -> (Vec<u32>, usize)
where
    F: FnMut(&[u32]) -> Option<String>,
{
    let started = std::time::Instant::now();
    let mut best: Vec<u32> = tape.to_vec();
    // trailing zeros are implied
    while best.last() == Some(&0) {
        best.pop();
    }
    let mut used = 0usize;
    let mut try_candidate = |cand: &[u32], best: &mut Vec<u32>, used: &mut usize| -> bool {
        if *used >= budget || started.elapsed() > limit {
            *used = budget;
            return false;
        }
        *used += 1;
        if test(cand).as_deref() == Some(want) {
            let mut c = cand.to_vec();
            while c.last() == Some(&0) {
                c.pop();
            }
            *best = c;
            true
        } else {
            false
        }
    };

    let mut improved = true;
    while improved && used < budget {
        improved = false;
        // pass 1: truncate the tail (zeros are implied)
        let mut cut = best.len() / 2;
        while cut >= 1 && used < budget {
            if best.len() > cut {
                let cand = best[..best.len() - cut].to_vec();
                if try_candidate(&cand, &mut best, &mut used) {
                    improved = true;
                    continue;
                }
            }
            cut /= 2;
        }
        // pass 2: delete blocks
        let mut size = (best.len() / 2).max(1);
        while size >= 1 && used < budget {
            let mut i = 0;
            while i + size <= best.len() && used < budget {
                let mut cand = best.clone();
                cand.drain(i..i + size);
                if try_candidate(&cand, &mut best, &mut used) {
                    improved = true;
                } else {
                    i += size;
                }
            }
            if size == 1 {
                break;
            }
            size /= 2;
        }
        // pass 3: zero blocks
        let mut size = (best.len() / 2).max(1);
        while size >= 1 && used < budget {
            let mut i = 0;
            while i < best.len() && used < budget {
                let end = (i + size).min(best.len());
                if best[i..end].iter().any(|v| *v != 0) {
                    let mut cand = best.clone();
                    for v in &mut cand[i..end] {
                        *v = 0;
                    }
                    if try_candidate(&cand, &mut best, &mut used) {
                        improved = true;
                    }
                }
                i += size;
            }
            if size == 1 {
                break;
            }
            size /= 2;
        }
        // pass 4: lower single values (binary search towards 0)
        let mut i = 0;
        while i < best.len() && used < budget {
            if best[i] > 0 {
                let mut lo = 0u32;
                let mut hi = best[i];
                while lo < hi && used < budget {
                    let mid = lo + (hi - lo) / 2;
                    let mut cand = best.clone();
                    if i >= cand.len() {
                        break;
                    }
                    cand[i] = mid;
                    if try_candidate(&cand, &mut best, &mut used) {
                        improved = true;
                        hi = mid;
                    } else {
                        lo = mid + 1;
                    }
                    if i >= best.len() {
                        break;
                    }
                }
            }
            i += 1;
        }
    }
    (best, used)
}

#[cfg(test)]
mod tests {
    use super::*;

    #[test]
    fn shrinks_to_minimal() {
        // "fails" iff some element >= 7
        let tape = vec![3, 9, 1, 0, 12, 4];
        let (best, _) = shrink(&tape, "x", 1000, |t| {
            if t.iter().any(|v| *v >= 7) {
                Some("x".to_string())
            } else {
                None
            }
        });
        assert_eq!(best, vec![7]);
    }
}
