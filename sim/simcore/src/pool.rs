//! Worker pool: run `n` indexed jobs on `workers` threads and merge the results in index
//! order, so that output never depends on the worker count or on thread timing.

use std::sync::atomic::{AtomicBool, AtomicU64, Ordering};
use std::sync::Mutex;

/// Number of worker threads to use (`VERIF_WORKERS` or all cores).
#[must_use]
pub fn workers() -> usize {
    std::env::var("VERIF_WORKERS")
        .ok()
        .and_then(|s| s.parse::<usize>().ok())
        .filter(|n| *n >= 1)
        .unwrap_or_else(|| std::thread::available_parallelism().map_or(4, usize::from))
}

/// Run jobs `0..n` in chunks; `job(i)` produces a partial result which `merge` folds in
/// index order (chunks are merged in chunk order after all finished).  `stop` may be set
/// by a job to end the batch early (remaining indices are skipped, deterministically
/// reported as not run).
pub fn run_indexed<R, J, M>(n: u64, workers: usize, chunk: u64, job: J, mut merge: M, stop: &AtomicBool)
where
    R: Send,
    J: Fn(u64) -> R + Sync,
    M: FnMut(u64, R),
{
    let next = AtomicU64::new(0);
    let results: Mutex<Vec<(u64, Vec<R>)>> = Mutex::new(Vec::new());
    std::thread::scope(|scope| {
        for _ in 0..workers.max(1) {
            let worker = || loop {
                if stop.load(Ordering::Relaxed) {
                    break;
                }
                let start = next.fetch_add(chunk, Ordering::Relaxed);
                if start >= n {
                    break;
                }
                let end = (start + chunk).min(n);
                let mut out = Vec::with_capacity((end - start) as usize);
                for i in start..end {
                    out.push(job(i));
                }
                results.lock().unwrap().push((start, out));
            };
            std::thread::Builder::new()
                .stack_size(16 << 20)
                .spawn_scoped(scope, worker)
                .expect("spawn worker");
        }
    });
    let mut all = results.into_inner().unwrap();
    all.sort_by_key(|(start, _)| *start);
    for (start, chunk_results) in all {
        for (k, r) in chunk_results.into_iter().enumerate() {
            merge(start + k as u64, r);
        }
    }
}
