//! The decision tape: every choice a simulated run makes is one bounded draw.
//!
//! In exploration the tape is filled from a SplitMix64-seeded xoshiro256** generator; in
//! replay it is read from a recorded list (missing entries read as 0, out-of-range entries
//! are clamped).  Draws are ordered so that 0 is the simplest choice.

/// SplitMix64 finaliser, used as a hash / seed expander.
#[must_use]
pub fn mix64(mut z: u64) -> u64 {
    z = z.wrapping_add(0x9E37_79B9_7F4A_7C15);
    z = (z ^ (z >> 30)).wrapping_mul(0xBF58_476D_1CE4_E5B9);
    z = (z ^ (z >> 27)).wrapping_mul(0x94D0_49BB_1331_11EB);
    z ^ (z >> 31)
}

/// xoshiro256**.
#[derive(Clone, Debug)]
pub struct Rng {
    s: [u64; 4],
}

impl Rng {
    #[must_use]
    pub fn new(seed: u64) -> Self {
        let mut z = seed;
        let mut s = [0u64; 4];
        for x in &mut s {
            z = z.wrapping_add(0x9E37_79B9_7F4A_7C15);
            *x = mix64(z);
        }
        if s == [0, 0, 0, 0] {
            s[0] = 1;
        }
        Self { s }
    }

    pub fn next_u64(&mut self) -> u64 {
        let result = self.s[1].wrapping_mul(5).rotate_left(7).wrapping_mul(9);
        let t = self.s[1] << 17;
        self.s[2] ^= self.s[0];
        self.s[3] ^= self.s[1];
        self.s[1] ^= self.s[2];
        self.s[0] ^= self.s[3];
        self.s[2] ^= t;
        self.s[3] = self.s[3].rotate_left(45);
        result
    }

    /// Uniform in `[0, bound)`, `bound >= 1`.
    pub fn below(&mut self, bound: u32) -> u32 {
        debug_assert!(bound >= 1);
        ((u128::from(self.next_u64() >> 32) * u128::from(bound)) >> 32) as u32
    }
}

#[derive(Clone, Debug)]
enum Source {
    Gen(Rng),
    Replay(Vec<u32>),
}

/// The decision tape.
#[derive(Clone, Debug)]
pub struct Tape {
    src: Source,
    pos: usize,
    /// Every value handed out, in order (this is the replay file's payload).
    pub record: Vec<u32>,
    /// Hard cap on draws per run (a runaway run is a harness error, not a verdict).
    pub limit: usize,
    pub exhausted: bool,
}

impl Tape {
    #[must_use]
    pub fn from_seed(seed: u64) -> Self {
        Self {
            src: Source::Gen(Rng::new(seed)),
            pos: 0,
            record: Vec::with_capacity(256),
            limit: 4_000_000,
            exhausted: false,
        }
    }

    #[must_use]
    pub fn from_values(values: Vec<u32>) -> Self {
        Self {
            src: Source::Replay(values),
            pos: 0,
            record: Vec::with_capacity(256),
            limit: 4_000_000,
            exhausted: false,
        }
    }

    /// Number of draws made so far.
    #[must_use]
    pub fn position(&self) -> usize {
        self.pos
    }

    /// A draw in `[0, bound)`; `bound == 0` is treated as 1.
    pub fn draw(&mut self, bound: u32) -> u32 {
        let bound = bound.max(1);
        if self.pos >= self.limit {
            self.exhausted = true;
            return 0;
        }
        let v = match &mut self.src {
            Source::Gen(rng) => rng.below(bound),
            Source::Replay(values) => values.get(self.pos).copied().unwrap_or(0).min(bound - 1),
        };
        self.pos += 1;
        self.record.push(v);
        v
    }

    /// A draw in `[lo, hi]` (inclusive); `lo` is the simplest choice.
    pub fn range(&mut self, lo: u32, hi: u32) -> u32 {
        if hi <= lo {
            return lo;
        }
        lo + self.draw(hi - lo + 1)
    }

    /// True with probability `per_mille / 1000`; the simplest choice (0) is `false`.
    pub fn chance(&mut self, per_mille: u32) -> bool {
        if per_mille == 0 {
            return false;
        }
        let v = self.draw(1000);
        v >= 1000 - per_mille.min(1000)
    }

    /// One of `n` alternatives, index 0 the simplest.
    pub fn pick(&mut self, n: usize) -> usize {
        self.draw(n as u32) as usize
    }

    /// Weighted choice; index 0 is the simplest alternative.
    pub fn weighted(&mut self, weights: &[u32]) -> usize {
        let total: u32 = weights.iter().sum();
        let mut v = self.draw(total.max(1));
        for (i, w) in weights.iter().enumerate() {
            if v < *w {
                return i;
            }
            v -= *w;
        }
        0
    }

    /// A value in `[0, max]` biased towards small magnitudes (heavy tail).
    pub fn skewed(&mut self, max: u32) -> u32 {
        if max == 0 {
            return 0;
        }
        let class = self.weighted(&[50, 30, 15, 5]);
        let cap = match class {
            0 => (max / 64).max(1),
            1 => (max / 8).max(1),
            2 => (max / 2).max(1),
            _ => max,
        }
        .min(max);
        self.draw(cap + 1)
    }
}

#[cfg(test)]
mod tests {
    use super::*;

    #[test]
    fn replay_reproduces_generation() {
        let mut a = Tape::from_seed(42);
        let xs: Vec<u32> = (0..100).map(|i| a.draw(1 + i)).collect();
        let mut b = Tape::from_values(a.record.clone());
        let ys: Vec<u32> = (0..100).map(|i| b.draw(1 + i)).collect();
        assert_eq!(xs, ys);
    }

    #[test]
    fn missing_entries_read_as_zero() {
        let mut t = Tape::from_values(vec![5]);
        assert_eq!(t.draw(10), 5);
        assert_eq!(t.draw(10), 0);
        assert!(!t.chance(999));
    }
}
