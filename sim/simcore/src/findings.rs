//! Known-findings file: `/verif/known-findings.jsonl`, never written at run time.
//!
//! One JSON object per line:
//! `{"status":"open","property":"C03","signature":"c03.stale-slot*","what":"..."}` or
//! `{"status":"fixed","property":"C04","commit":"<sha>","signature":"...","what":"..."}`.
//! Only `open` entries suppress a violation, and only one whose signature matches
//! (exact, or prefix when the entry's signature ends in `*`).  `fixed` entries suppress
//! nothing.

use serde::Deserialize;

#[derive(Debug, Clone, Deserialize)]
pub struct Finding {
    pub status: String,
    pub property: String,
    pub signature: String,
    #[serde(default)]
    pub commit: Option<String>,
    pub what: String,
}

#[derive(Debug, Clone, Default)]
pub struct Findings {
    pub entries: Vec<Finding>,
}

impl Findings {
    /// Load the file; a missing file is an empty list, a malformed line is a harness error.
    pub fn load(path: &str) -> Result<Self, String> {
        let text = match std::fs::read_to_string(path) {
            Ok(t) => t,
            Err(e) if e.kind() == std::io::ErrorKind::NotFound => return Ok(Self::default()),
            Err(e) => return Err(format!("cannot read {path}: {e}")),
        };
        let mut entries = Vec::new();
        for (n, line) in text.lines().enumerate() {
            let line = line.trim();
            if line.is_empty() || line.starts_with('#') || line.starts_with("fixed:") {
                continue;
            }
            let f: Finding = serde_json::from_str(line)
                .map_err(|e| format!("{path}:{}: {e}", n + 1))?;
            entries.push(f);
        }
        Ok(Self { entries })
    }

    /// The open finding (if any) that lists this violation.
    #[must_use]
    pub fn matching(&self, property: &str, signature: &str) -> Option<&Finding> {
        self.entries.iter().find(|f| {
            f.status == "open"
                && f.property == property
                && if let Some(prefix) = f.signature.strip_suffix('*') {
                    signature.starts_with(prefix)
                } else {
                    f.signature == signature
                }
        })
    }

    /// All open findings of a property.
    pub fn open_for<'a>(&'a self, property: &'a str) -> impl Iterator<Item = &'a Finding> + 'a {
        self.entries
            .iter()
            .filter(move |f| f.status == "open" && f.property == property)
    }
}
