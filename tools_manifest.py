#!/usr/bin/env python3
"""Generate /verif/MANIFEST.json from the table below (kept in one place so that the
manifest stays valid while checks are added)."""
import json, subprocess

LEVEL_TEXT = "deterministic simulation with fault injection: seeded search over scenarios (configuration x simulated network x fault plan) with the real tracer running over simulated sockets, network and clock; a clean batch is evidence, not proof"
CHECKS = {
 "C01": ("tracersim", "exploration", "ground-truth oracle per probe (tagged responses, hand-over times) over seeded topologies, delivery faults and socket faults", "4 C01"),
 "C02": ("tracersim", "exploration", "lossless networks x every quoting policy / RFC 4884 layout / in-transit rewrite; sequence sweep per configuration cell (thorough: every sequence up to the wrap); one-field-off foreign quotations", "4 C02"),
 "C03": ("tracersim", "exploration", "adversarial deliveries (duplicates, previous-round replays, foreign, never-sent, unrelated ICMP) judged by ground truth plus a reference model of the round bookkeeping", "4 C03"),
 "C04": ("tracersim", "fault_enumeration", "enumerated corruption sweep (80 configurations x every length/offset/type field x every 8-bit value or a 16-bit boundary set x a truncation-length set) of genuine responses through the real receive path, strategy and state, plus seeded live corruption and a passive sniffer over all packet views", "4 C04"),
 "C05": ("tracersim", "exploration", "reference aggregator (plain lists, two-pass formulas) compared with the snapshot after every round, plus conservation laws", "4 C05"),
 "C14": ("tracersim", "exploration", "extension-emitting responders (RFC 4884 compliant and legacy layouts, arbitrary objects, MPLS stacks); reported extensions must equal the encoded list and the probe must still be recognised", "4 C14"),
 "C15": ("tracersim", "exploration", "flow invariants and per-flow reference aggregation over ECMP topologies with small flow limits", "4 C15"),
 "C16": ("tracersim+tuisim", "exploration", "builder half (tracersim): every combination the Builder API admits is built and, when accepted, run over simulated networks; command-line half (tuisim): generated argv + configuration file through the real clap parser and TrippyConfig::from, tracers built by the real builder chain and run over the simulated network; option precedence: differential input enumeration on the same pipeline (each option absent / file / CLI / both), reported separately as precedence_cases", "4 C16, 6"),
 "C17": ("tuisim", "exploration", "the real event loop (run_app), TuiApp and every renderer on a simulated terminal (1x1..300x100) and keyboard (pty on fd 0), with trace updates, tracer errors and DNS completions scheduled between a command and the next frame; no panic, no hang (watchdog), selection invariants read from TuiApp at every frame", "6"),
 "C18": ("tuisim", "exploration", "same episodes; at every frame with a privacy ttl n in force no address / host name / AS name / GeoIP text / coordinates of a responding hop with ttl <= n, nor the source address, occurs in the cell buffer; expand/contract step semantics checked against the key that was pressed", "6"),
 "C20": ("snapsim", "exploration", "the real tracer thread and reader threads calling snapshot()/clear() under shuttle's seeded schedulers (random and PCT); the recorded history is checked for linearizability against the sequential model 'rounds applied since the last clear'", "5"),
 "C19": ("tracersim", "exploration", "per-round NAT status recomputed from the quoted checksums on the simulated wire over paths with rewriting devices", "4 C19"),
 "C06": ("tracersim", "exploration", "online send-discipline monitor over wire records and hand-overs", "4 C06"),
 "C07": ("tracersim", "exploration", "sequence arithmetic monitor over long runs from boundary initial sequences with TCP port-collision storms, plus re-delivery of previous-round responses", "4 C07"),
 "C08": ("tracersim", "exploration", "timing predicate evaluated on the exact clock values handed to the tracer (virtual clock, exact tick accounting)", "4 C08"),
 "C09": ("tracersim", "exploration", "socket faults at random call sites and kinds plus an enumeration of every single scripted fault (configuration x call site x setup/run phase x occurrence x errno; thorough: also fault pairs); round count / error hand-off / Failed / Skipped semantics", "4 C09"),
 "C10": ("tracersim", "exploration", "hop-window invariants on a snapshot after every published round; true distance on stable paths", "4 C10"),
 "C11": ("tracersim", "exploration", "independent RFC decoder + checksum verification on every datagram of every simulated run", "4 C11"),
}
NOT_APPLICABLE = {
 "C12": "pure function of (buffer, field, value): no schedule, clock, fault, I/O or interleaving is involved, and most accessors (all setters of views the tracer only reads) are never executed by the running system; deterministic simulation cannot reach them (DESIGN.md section 7)",
 "C13": "the codec half is a pure function of (bytes, addresses); arbitrary contents and the TCP helper are never produced by the running tracer. Its only stateful sentence (Paris probes carry the sequence in the checksum field and still verify) is part of C11's statement and is enforced there (DESIGN.md section 7)",
}
PENDING = {
}

def main():
    hooks = subprocess.run(["git", "-C", "/repo", "log", "--format=%h %s", "--grep=^verif hooks"], capture_output=True, text=True).stdout.strip().splitlines()
    checks = []
    for pid, (engine, level, text, ref) in sorted(CHECKS.items()):
        checks.append({
            "property_id": pid,
            "quick_cmd": f"./check {pid} quick",
            "thorough_cmd": f"./check {pid} thorough",
            "evidence_file": f"/verif/evidence/{pid}.json",
            "replay_cmd_template": f"./check {pid} --replay {{path}}",
            "engine": engine,
            "level_claimed": {"category": level, "text": f"{text}. {LEVEL_TEXT}.", "design_ref": f"DESIGN.md section {ref}"},
            "level_note": "trusted: the simulated socket/platform layer and network model, the independent decoder, the clock_gettime interposition (x86-64 Linux/glibc); real SocketImpl/PlatformImpl system calls are stubbed and outside the claim",
            "technique": "deterministic simulation with fault injection (seeded schedules and fault sequences, tape-based replay and shrinking)",
        })
    na = [{"property_id": k, "reason": v} for k, v in sorted({**NOT_APPLICABLE, **{k: v for k, v in PENDING.items() if k not in CHECKS}}.items())]
    m = {
        "version": 1,
        "setup_cmd": "cd /verif/sim && CARGO_NET_OFFLINE=true cargo build --offline --profile checked -p tracersim -p tuisim && cd /verif/sim/snapsim && CARGO_NET_OFFLINE=true cargo build --offline --profile checked",
        "hooks": {
            "guard": "cargo features verif-hooks (trippy-core, trippy-tui, trippy-dns) and verif-shuttle (trippy-core)",
            "enable": "the harness crates under /verif/sim depend on /repo's crates by path with features = [\"verif-hooks\"]",
            "baseline_off_cmd": "cd /repo && cargo nextest run --workspace --no-fail-fast --test-threads 8 --offline || cargo test --workspace --no-fail-fast --offline",
            "source_commits": [h.split()[0] for h in hooks],
            "add_only": True,
        },
        "engines": [
            {"name": "tracersim", "path": "/verif/sim/tracersim", "serves_properties": sorted(k for k, v in CHECKS.items() if v[0].startswith("tracersim")), "kind_free_text": "the real Builder/Tracer/Strategy/Channel/State over SimSocket/SimPlatform, a simulated network with an independent RFC codec, and a virtual clock (clock_gettime interposed); seeded decision tape, tape shrinking, replay files"},
            {"name": "tuisim", "path": "/verif/sim/tuisim", "serves_properties": ["C16", "C17", "C18"], "kind_free_text": "real clap/TOML configuration pipeline, real TuiApp + run_app + renderers on a SimBackend (ratatui TestBackend inside), keyboard = pseudo-terminal on fd 0 read by the real crossterm parser, harness-written MaxMind DB for the real GeoIP reader, resolver without thread (DNS completions are scheduled events), trace data produced by real tracers over tracersim's network; 16 worker processes, watchdog with gdb stack sampling for hangs"},
            {"name": "snapsim", "path": "/verif/sim/snapsim", "serves_properties": sorted(k for k, v in CHECKS.items() if v[0] == "snapsim"), "kind_free_text": "tracersim's world plus shuttle 0.9.3 as the thread scheduler (state lock replaced by shuttle's RwLock through feature verif-shuttle and a shadow manifest); linearizability checker; persisted schedules as replay"},
        ],
        "checks": checks,
        "not_applicable": na,
        "notes": "Known findings: /verif/known-findings.jsonl. Replay files: /verif/replays. VERIF_SEED seeds every batch (default fixed). Exit 2 = harness error.",
    }
    json.dump(m, open("/verif/MANIFEST.json", "w"), indent=1)
    print("wrote MANIFEST.json with", len(checks), "checks")

main()
